package main

// G7 shared global objects are immutable or safe for concurrent use (C16).
//
// G5 decides that no package-level *variable* is assigned after initialisation.
// A variable that holds a reference (pointer, slice, map, interface, function
// value) shares the object behind it between all goroutines of the process just
// the same. For every such variable of the package the object must be
//   - a sync.Pool (safe by contract; its use is decided by D4/G4), or
//   - a function literal that captures nothing, or
//   - a pointer to a struct of this package whose methods never write the
//     receiver and whose fields are never written through the variable, or
//   - a slice / map that is only read (no element store, append, copy-into,
//     map update or delete through the variable).
// A reference to an object of another package whose methods are called through
// the variable (a shared hasher, encoder, buffer ...) is reported: nothing in
// reach proves such an object safe for unsynchronised concurrent use.

import (
	"go/token"
	"go/types"
	"sort"
	"strings"

	"golang.org/x/tools/go/ssa"
)

// concurrencySafeTypes: types of other packages whose documentation promises safe concurrent use of one value.
var concurrencySafeTypes = map[string]string{
	"cbor.EncMode":   "fxamacker/cbor: EncMode is immutable and safe for concurrent use",
	"cbor.DecMode":   "fxamacker/cbor: DecMode is immutable and safe for concurrent use",
	"*sync.Pool":     "sync: safe for concurrent use",
	"*sync.Mutex":    "sync: a lock",
	"*sync.RWMutex":  "sync: a lock",
	"*sync.Once":     "sync: safe for concurrent use",
	"*sync.Map":      "sync: safe for concurrent use",
	"*atomic.Uint64": "sync/atomic",
	"*atomic.Int64":  "sync/atomic",
}

func typeHoldsReference(t types.Type, depth int) bool {
	if depth > 4 {
		return false
	}
	switch u := t.Underlying().(type) {
	case *types.Pointer, *types.Slice, *types.Map, *types.Chan, *types.Interface, *types.Signature:
		return true
	case *types.Struct:
		for i := 0; i < u.NumFields(); i++ {
			if typeHoldsReference(u.Field(i).Type(), depth+1) {
				return true
			}
		}
	case *types.Array:
		return typeHoldsReference(u.Elem(), depth+1)
	}
	return false
}

func ruleG7(p *Prog, r *Report) {
	const R = "G7"
	n := 0
	var globals []*ssa.Global
	for _, pkg := range p.SSA.AllPackages() {
		if pkg.Pkg.Path() != rootPkgPath {
			continue
		}
		for _, m := range pkg.Members {
			g, ok := m.(*ssa.Global)
			if !ok || g.Name() == "_" || strings.HasPrefix(g.Name(), "init$") || p.IsTestFile(g.Pos()) {
				continue
			}
			globals = append(globals, g)
		}
	}
	sort.Slice(globals, func(i, j int) bool { return globals[i].Name() < globals[j].Name() })
	// all loads / address uses of each global in non-test, non-init code
	uses := map[*ssa.Global][]ssa.Instruction{}
	var all []*ssa.Function
	var addDeep func(f *ssa.Function)
	addDeep = func(f *ssa.Function) {
		all = append(all, f)
		for _, a := range f.AnonFuncs {
			addDeep(a)
		}
	}
	for _, f := range p.TopFuncs() {
		if p.IsTestFile(f.Pos()) {
			continue
		}
		addDeep(f)
	}
	for _, f := range all {
		isInit := TopLevel(f).Name() == "init" || strings.HasPrefix(TopLevel(f).Name(), "init#")
		if isInit {
			continue
		}
		eachInstr(f, func(in ssa.Instruction) {
			var ops []*ssa.Value
			for _, op := range in.Operands(ops) {
				if g, ok := (*op).(*ssa.Global); ok {
					uses[g] = append(uses[g], in)
				}
			}
		})
	}
	recvWrites := func(tn *types.Named) string {
		// a method of the type that stores to a field of its receiver
		for _, f := range all {
			if recvNamed(f) == nil || recvNamed(f).Obj() != tn.Obj() || len(f.Params) == 0 {
				continue
			}
			bad := ""
			eachInstr(f, func(in ssa.Instruction) {
				if st, ok := in.(*ssa.Store); ok {
					if fr, ok := asFieldAddr(st.Addr); ok && sameValue(fr.Base, f.Params[0]) {
						bad = p.Name(f) + " writes field " + fr.Field
					}
				}
			})
			if bad != "" {
				return bad
			}
		}
		return ""
	}
	for _, g := range globals {
		et := g.Type().(*types.Pointer).Elem()
		if !typeHoldsReference(et, 0) {
			continue
		}
		n++
		cons := "shared-global:" + g.Name()
		pos := p.Pos(g.Pos())
		if typeString(et) == "sync.Pool" {
			r.Ok(R, cons, pos, "sync.Pool: safe for concurrent use by contract (use decided by D4/G4)")
			continue
		}
		// writes through the loaded value
		problem := ""
		for _, in := range uses[g] {
			ld, ok := in.(*ssa.UnOp)
			if !ok || ld.Op != token.MUL {
				if _, isStore := in.(*ssa.Store); isStore {
					continue // assignment of the variable itself: G5
				}
				// address of the variable taken (field address of a struct global etc.)
				if fa, ok := in.(*ssa.FieldAddr); ok {
					for _, ref := range *fa.Referrers() {
						if st, ok := ref.(*ssa.Store); ok && st.Addr == ssa.Value(fa) {
							problem = "a field of the variable is written at " + p.InstrPos(st)
						}
					}
				}
				continue
			}
			var scan func(v ssa.Value, depth int)
			scan = func(v ssa.Value, depth int) {
				if depth > 3 || v.Referrers() == nil {
					return
				}
				for _, ref := range *v.Referrers() {
					switch x := ref.(type) {
					case *ssa.Slice:
						if x.X == v {
							scan(x, depth+1) // a re-slice shares the backing array
						}
					case *ssa.IndexAddr:
						for _, r2 := range *x.Referrers() {
							if st, ok := r2.(*ssa.Store); ok && st.Addr == ssa.Value(x) {
								problem = "an element is stored through the variable at " + p.InstrPos(st)
							}
						}
					case *ssa.FieldAddr:
						for _, r2 := range *x.Referrers() {
							if st, ok := r2.(*ssa.Store); ok && st.Addr == ssa.Value(x) {
								problem = "a field of the shared object is written at " + p.InstrPos(st)
							}
						}
					case *ssa.MapUpdate:
						if x.Map == v {
							problem = "the shared map is updated at " + p.InstrPos(x)
						}
					case ssa.CallInstruction:
						cc := x.Common()
						if bi, ok := cc.Value.(*ssa.Builtin); ok {
							switch bi.Name() {
							case "append", "copy", "delete", "clear":
								if len(cc.Args) > 0 && cc.Args[0] == v {
									problem = bi.Name() + " through the variable at " + p.InstrPos(x)
								}
							}
							continue
						}
						// a method called on the shared object
						isRecv := (cc.IsInvoke() && cc.Value == v) || (!cc.IsInvoke() && cc.StaticCallee() != nil && cc.StaticCallee().Signature.Recv() != nil && len(cc.Args) > 0 && cc.Args[0] == v)
						if !isRecv {
							continue
						}
						nt := rootNamed(v.Type())
						if nt != nil && nt.Obj().Pkg() != nil && nt.Obj().Pkg().Path() == rootPkgPath {
							continue // in-package type: decided below by its methods
						}
						if _, isFunc := v.Type().Underlying().(*types.Signature); isFunc {
							continue
						}
						if why, ok := concurrencySafeTypes[typeString(v.Type())]; ok {
							_ = why
							continue
						}
						problem = "method " + calleeName(x) + " of an object of another package (" + typeString(v.Type()) + ") is called through the variable at " + p.InstrPos(x) + ": nothing proves it safe for unsynchronised concurrent use"
					}
				}
			}
			scan(ld, 0)
		}
		if problem == "" {
			switch u := et.Underlying().(type) {
			case *types.Pointer:
				if nt := rootNamed(u); nt != nil && nt.Obj().Pkg() != nil && nt.Obj().Pkg().Path() == rootPkgPath {
					if w := recvWrites(nt); w != "" {
						problem = "the shared " + nt.Obj().Name() + " is mutated by its own method: " + w
					}
				}
			case *types.Signature:
				// the initial value must capture nothing
				if init := g.Pkg.Func("init"); init != nil {
					eachInstr(init, func(in ssa.Instruction) {
						if st, ok := in.(*ssa.Store); ok && st.Addr == ssa.Value(g) {
							v := st.Val
							if ct, ok := v.(*ssa.ChangeType); ok {
								v = ct.X
							}
							if mc, ok := v.(*ssa.MakeClosure); ok && len(mc.Bindings) > 0 {
								problem = "the shared function value captures variables"
							}
						}
					})
				}
			}
		}
		r.Decide(problem == "", R, cons, pos,
			"the object behind the variable is only read (or is a pool / a function that captures nothing)",
			"process-wide variable "+g.Name()+" shares a mutable object between all goroutines: "+problem+" (independent storages on different goroutines would race and corrupt each other's results)")
	}
	r.Floor(R, "package-level variables that hold references", 6, n)
}

func typeString(t types.Type) string {
	return types.TypeString(t, func(p *types.Package) string { return p.Name() })
}
