package main

// L5 threshold arithmetic: affine-interval abstract interpretation of setThreshold over the
// symbolic slab size t in [minSlabSize, maxSlabSize].

import (
	"fmt"
	"go/constant"
	"go/token"
	"go/types"
	"math/big"
	"strings"

	"golang.org/x/tools/go/ssa"
)

// lin is a*t + b with rational coefficients.
type lin struct{ a, b *big.Rat }

func linC(c int64) lin      { return lin{new(big.Rat), new(big.Rat).SetInt64(c)} }
func linT() lin             { return lin{new(big.Rat).SetInt64(1), new(big.Rat)} }
func (x lin) add(y lin) lin { return lin{new(big.Rat).Add(x.a, y.a), new(big.Rat).Add(x.b, y.b)} }
func (x lin) sub(y lin) lin { return lin{new(big.Rat).Sub(x.a, y.a), new(big.Rat).Sub(x.b, y.b)} }
func (x lin) scale(r *big.Rat) lin {
	return lin{new(big.Rat).Mul(x.a, r), new(big.Rat).Mul(x.b, r)}
}
func (x lin) at(t int64) *big.Rat {
	return new(big.Rat).Add(new(big.Rat).Mul(x.a, new(big.Rat).SetInt64(t)), x.b)
}
func (x lin) String() string { return fmt.Sprintf("%s*t%+s", x.a.RatString(), x.b.FloatString(2)) }

// aval: lo <= value <= hi for every t in the domain.
type aval struct {
	lo, hi lin
	ok     bool
	isBool bool
	bval   int // for booleans decided over the whole domain: 1 true, 0 false, -1 unknown
}

type l5ctx struct {
	tmin, tmax int64
	param      ssa.Value
	env        map[ssa.Value]aval
	underflow  []string
	p          *Prog
	undecided  []string
}

// leqAll: x <= y for all t in [tmin, tmax] (linear => check endpoints).
func (c *l5ctx) leqAll(x, y lin) bool {
	return x.at(c.tmin).Cmp(y.at(c.tmin)) <= 0 && x.at(c.tmax).Cmp(y.at(c.tmax)) <= 0
}

func (c *l5ctx) eval(v ssa.Value) aval {
	if a, ok := c.env[v]; ok {
		return a
	}
	a := c.eval0(v)
	c.env[v] = a
	return a
}

func (c *l5ctx) eval0(v ssa.Value) aval {
	if v == c.param {
		return aval{lo: linT(), hi: linT(), ok: true}
	}
	switch x := v.(type) {
	case *ssa.Const:
		if x.Value == nil {
			return aval{}
		}
		switch x.Value.Kind() {
		case constant.Int:
			if i, ok := constant.Int64Val(x.Value); ok {
				return aval{lo: linC(i), hi: linC(i), ok: true}
			}
			if u, ok := constant.Uint64Val(x.Value); ok {
				return aval{lo: linC(int64(u >> 1)), hi: linC(int64(u>>1) * 2), ok: true}
			}
		case constant.Float:
			f, _ := constant.Float64Val(x.Value)
			r := new(big.Rat).SetFloat64(f)
			if r == nil {
				return aval{}
			}
			l := lin{new(big.Rat), r}
			return aval{lo: l, hi: l, ok: true}
		case constant.Bool:
			b := 0
			if constant.BoolVal(x.Value) {
				b = 1
			}
			return aval{ok: true, isBool: true, bval: b}
		}
		return aval{}
	case *ssa.Convert:
		a := c.eval(x.X)
		if !a.ok {
			return a
		}
		// float -> integer conversion truncates: lower bound drops by < 1
		if fb, ok := x.X.Type().Underlying().(*types.Basic); ok && fb.Info()&types.IsFloat != 0 {
			if tb, ok := x.Type().Underlying().(*types.Basic); ok && tb.Info()&types.IsInteger != 0 {
				return aval{lo: a.lo.sub(linC(1)), hi: a.hi, ok: true}
			}
		}
		return a
	case *ssa.ChangeType:
		return c.eval(x.X)
	case *ssa.UnOp:
		if x.Op == token.MUL {
			// load of a global written earlier in this function: the last stored value
			if g, ok := x.X.(*ssa.Global); ok {
				var last ssa.Value
				eachInstr(x.Parent(), func(in ssa.Instruction) {
					if st, ok := in.(*ssa.Store); ok && st.Addr == ssa.Value(g) && instrDominates(st, x) {
						last = st.Val
					}
				})
				if last != nil {
					return c.eval(last)
				}
			}
		}
		return aval{}
	case *ssa.BinOp:
		a, b := c.eval(x.X), c.eval(x.Y)
		if !a.ok || !b.ok {
			return aval{}
		}
		switch x.Op {
		case token.ADD:
			return aval{lo: a.lo.add(b.lo), hi: a.hi.add(b.hi), ok: true}
		case token.SUB:
			lo := a.lo.sub(b.hi)
			if _, isU := x.Type().Underlying().(*types.Basic); isU && x.Type().Underlying().(*types.Basic).Info()&types.IsUnsigned != 0 {
				if !c.leqAll(linC(0), lo) {
					c.underflow = append(c.underflow, c.p.InstrPos(x)+": "+a.lo.String()+" - "+b.hi.String()+" can be negative")
				}
			}
			return aval{lo: lo, hi: a.hi.sub(b.lo), ok: true}
		case token.MUL:
			// one side constant
			for _, pr := range [][2]aval{{a, b}, {b, a}} {
				k := pr[1]
				if k.lo.a.Sign() == 0 && k.hi.a.Sign() == 0 && k.lo.b.Cmp(k.hi.b) == 0 && k.lo.b.Sign() >= 0 {
					return aval{lo: pr[0].lo.scale(k.lo.b), hi: pr[0].hi.scale(k.lo.b), ok: true}
				}
			}
			return aval{}
		case token.QUO:
			if b.lo.a.Sign() == 0 && b.hi.a.Sign() == 0 && b.lo.b.Cmp(b.hi.b) == 0 && b.lo.b.Sign() > 0 {
				inv := new(big.Rat).Inv(b.lo.b)
				lo, hi := a.lo.scale(inv), a.hi.scale(inv)
				if tb, ok := x.Type().Underlying().(*types.Basic); ok && tb.Info()&types.IsInteger != 0 {
					// floor division: result > exact - 1, i.e. >= exact - (c-1)/c
					frac := new(big.Rat).Sub(new(big.Rat).SetInt64(1), inv)
					lo = lo.sub(lin{new(big.Rat), frac})
				}
				return aval{lo: lo, hi: hi, ok: true}
			}
			return aval{}
		case token.SHR:
			if b.lo.a.Sign() == 0 && b.lo.b.IsInt() && b.lo.b.Cmp(b.hi.b) == 0 {
				n := b.lo.b.Num().Int64()
				inv := new(big.Rat).SetFrac64(1, 1<<uint(n))
				frac := new(big.Rat).Sub(new(big.Rat).SetInt64(1), inv)
				return aval{lo: a.lo.scale(inv).sub(lin{new(big.Rat), frac}), hi: a.hi.scale(inv), ok: true}
			}
			return aval{}
		case token.LSS, token.GTR, token.LEQ, token.GEQ:
			// decide over the whole domain when possible
			var t, f bool
			switch x.Op {
			case token.GTR: // a > b
				t = c.leqAll(b.hi.add(lin{new(big.Rat), big.NewRat(1, 1000000)}), a.lo)
				f = c.leqAll(a.hi, b.lo)
			case token.LSS:
				t = c.leqAll(a.hi.add(lin{new(big.Rat), big.NewRat(1, 1000000)}), b.lo)
				f = c.leqAll(b.hi, a.lo)
			case token.GEQ:
				t = c.leqAll(b.hi, a.lo)
				f = c.leqAll(a.hi.add(lin{new(big.Rat), big.NewRat(1, 1000000)}), b.lo)
			case token.LEQ:
				t = c.leqAll(a.hi, b.lo)
				f = c.leqAll(b.hi.add(lin{new(big.Rat), big.NewRat(1, 1000000)}), a.lo)
			}
			bv := -1
			if t {
				bv = 1
			} else if f {
				bv = 0
			}
			return aval{ok: true, isBool: true, bval: bv}
		}
		return aval{}
	case *ssa.Phi:
		// keep only feasible incoming edges (branch conditions decided over the domain)
		var vals []aval
		for i, e := range x.Edges {
			if c.edgeFeasible(x.Block().Preds[i], x.Block()) {
				vals = append(vals, c.eval(e))
			}
		}
		if len(vals) == 1 {
			return vals[0]
		}
		if len(vals) == 0 {
			return aval{}
		}
		// join of affine bounds: only if all equal
		for _, o := range vals[1:] {
			if !o.ok || !vals[0].ok || o.lo.String() != vals[0].lo.String() || o.hi.String() != vals[0].hi.String() {
				return aval{}
			}
		}
		return vals[0]
	}
	return aval{}
}

// edgeFeasible: the CFG edge from->to can be taken for some t in the domain.
func (c *l5ctx) edgeFeasible(from, to *ssa.BasicBlock) bool {
	// walk up single-pred chains to a deciding If
	if ifi, ok := from.Instrs[len(from.Instrs)-1].(*ssa.If); ok {
		cv := c.eval(ifi.Cond)
		if cv.ok && cv.isBool && cv.bval >= 0 {
			if from.Succs[0] == to && cv.bval == 0 {
				return false
			}
			if from.Succs[1] == to && cv.bval == 1 {
				return false
			}
		}
		return true
	}
	// from is reached only through feasible edges?
	any := len(from.Preds) == 0
	for _, pp := range from.Preds {
		if c.edgeFeasible(pp, from) {
			any = true
		}
	}
	return any
}

func (p *Prog) constVal(name string) (int64, bool) {
	o := p.Root.Types.Scope().Lookup(name)
	cst, ok := o.(*types.Const)
	if !ok {
		return 0, false
	}
	return constant.Int64Val(constant.ToInt(cst.Val()))
}

// L5 threshold arithmetic.
func ruleL5(p *Prog, r *Report) {
	const R = "L5"
	f := p.PkgFunc("setThreshold")
	if f == nil || len(f.Params) != 1 {
		r.Unk(R, "anchor:setThreshold", "-", "setThreshold(threshold) not found")
		return
	}
	tmin, ok1 := p.constVal("minSlabSize")
	tmax, ok2 := p.constVal("maxSlabSize")
	if !ok1 || !ok2 {
		r.Unk(R, "anchor:slab-size-range", "-", "minSlabSize/maxSlabSize constants not found")
		return
	}
	// the domain is enforced: t < minSlabSize and t > maxSlabSize lead to panic
	guardLo, guardHi := false, false
	for _, b := range f.Blocks {
		ifi, ok := b.Instrs[len(b.Instrs)-1].(*ssa.If)
		if !ok {
			continue
		}
		bo, ok := ifi.Cond.(*ssa.BinOp)
		if !ok || bo.X != ssa.Value(f.Params[0]) {
			continue
		}
		k, isK := constInt(bo.Y)
		_, panics := b.Succs[0].Instrs[len(b.Succs[0].Instrs)-1].(*ssa.Panic)
		if !isK || !panics {
			continue
		}
		if bo.Op == token.LSS && k == tmin {
			guardLo = true
		}
		if bo.Op == token.GTR && k == tmax {
			guardHi = true
		}
	}
	r.Decide(guardLo && guardHi, R, "domain-enforced", p.Pos(f.Pos()), fmt.Sprintf("slab sizes outside [%d, %d] are refused", tmin, tmax), "setThreshold no longer refuses slab sizes outside [minSlabSize, maxSlabSize]")

	c, globals := p.l5Globals(f, tmin, tmax)
	need := []string{"targetThreshold", "minThreshold", "maxThreshold", "maxInlineArrayElementSize", "maxInlineMapElementSize", "maxInlineMapKeySize"}
	l5Rest(p, r, f, c, globals, need, tmin, tmax)
}

// l5Globals evaluates setThreshold abstractly: the affine interval of every package variable it assigns.
func (p *Prog) l5Globals(f *ssa.Function, tmin, tmax int64) (*l5ctx, map[string]aval) {
	c := &l5ctx{tmin: tmin, tmax: tmax, param: f.Params[0], env: map[ssa.Value]aval{}, p: p}
	globals := map[string]aval{}
	eachInstr(f, func(in ssa.Instruction) {
		st, ok := in.(*ssa.Store)
		if !ok {
			return
		}
		g, ok := st.Addr.(*ssa.Global)
		if !ok {
			return
		}
		// only stores on feasible paths
		feasible := false
		if len(st.Block().Preds) == 0 {
			feasible = true
		}
		for _, pp := range st.Block().Preds {
			if c.edgeFeasible(pp, st.Block()) {
				feasible = true
			}
		}
		if !feasible {
			return
		}
		globals[g.Name()] = c.eval(st.Val)
	})
	return c, globals
}

func l5Rest(p *Prog, r *Report, f *ssa.Function, c *l5ctx, globals map[string]aval, need []string, tmin, tmax int64) {
	const R = "L5"
	for _, n := range need {
		a, ok := globals[n]
		if !ok || !a.ok {
			r.Unk(R, "global:"+n, p.Pos(f.Pos()), "the expression assigned to "+n+" is outside the affine vocabulary (+ - *const /const >>const, integer/float conversions) or the variable is no longer assigned in setThreshold")
			return
		}
		r.Ok(R, "global:"+n, p.Pos(f.Pos()), fmt.Sprintf("%s in [%s, %s]", n, a.lo, a.hi))
	}
	cst := func(n string) lin {
		v, ok := p.constVal(n)
		if !ok {
			r.Unk(R, "anchor:"+n, "-", "constant not found")
		}
		return linC(v)
	}
	t := linT()
	two := big.NewRat(2, 1)
	half := big.NewRat(1, 2)
	g := globals
	check := func(name string, ok bool, okMsg, badMsg string) {
		r.Decide(ok, R, "bound:"+name, p.Pos(f.Pos()), okMsg+fmt.Sprintf(" for every slab size in [%d, %d]", tmin, tmax), badMsg)
	}
	check("target-is-t", c.leqAll(g["targetThreshold"].hi, t) && c.leqAll(t, g["targetThreshold"].lo), "targetThreshold == t", "targetThreshold is not the configured slab size")
	check("min-half", c.leqAll(g["minThreshold"].hi, t.scale(half)) && c.leqAll(t.scale(half).sub(linC(1)), g["minThreshold"].lo), "t/2 - 1 <= minThreshold <= t/2", "minThreshold is not half the slab size")
	check("max-band", c.leqAll(t, g["maxThreshold"].lo) && c.leqAll(g["maxThreshold"].hi, t.scale(big.NewRat(3, 2))) && c.leqAll(t.scale(big.NewRat(3, 2)).sub(linC(1)), g["maxThreshold"].lo), "1.5t - 1 <= maxThreshold <= 1.5t", "maxThreshold is not 1.5x the slab size")
	check("max-fits-16bit", g["maxThreshold"].hi.at(tmax).Cmp(big.NewRat(65535, 1)) <= 0, "maxThreshold <= 65535 at the largest slab size (16-bit size fields in child headers)", "maxThreshold can exceed 65535: child header size fields (2 bytes) would truncate")
	check("array-two-elements", c.leqAll(g["maxInlineArrayElementSize"].hi.scale(two).add(cst("arrayDataSlabPrefixSize")), t), "2*maxInlineArrayElementSize + arrayDataSlabPrefixSize <= t", "two maximal array elements no longer fit into a slab of the target size: a full slab could hold a single element")
	check("map-two-elements", c.leqAll(g["maxInlineMapElementSize"].hi.add(cst("digestSize")).scale(two).add(cst("mapDataSlabPrefixSize")).add(cst("hkeyElementsPrefixSize")), t), "2*(maxInlineMapElementSize + digestSize) + mapDataSlabPrefixSize + hkeyElementsPrefixSize <= t", "two maximal map elements no longer fit into a slab of the target size")
	// relational fact (the interval domain loses the correlation): key limit = (element limit - element prefix) / k, k >= 2
	kvOK := false
	{
		var keyV, elemV ssa.Value
		eachInstr(f, func(in ssa.Instruction) {
			if st, ok := in.(*ssa.Store); ok {
				if gl, ok := st.Addr.(*ssa.Global); ok {
					switch gl.Name() {
					case "maxInlineMapKeySize":
						keyV = st.Val
					case "maxInlineMapElementSize":
						elemV = st.Val
					}
				}
			}
		})
		if q, ok := keyV.(*ssa.BinOp); ok && q.Op == token.QUO {
			if k, ok := constInt(q.Y); ok && k >= 2 {
				if sb, ok := q.X.(*ssa.BinOp); ok && sb.Op == token.SUB {
					pv, _ := p.constVal("singleElementPrefixSize")
					if pk, ok := constInt(sb.Y); ok && pk >= pv {
						x := sb.X
						if u, ok := x.(*ssa.UnOp); ok {
							if gl, ok := u.X.(*ssa.Global); ok && gl.Name() == "maxInlineMapElementSize" {
								kvOK = true
							}
						}
						if elemV != nil && x == elemV {
							kvOK = true
						}
					}
				}
			}
		}
	}
	check("key-value-fit-element", kvOK, "maxInlineMapKeySize = (maxInlineMapElementSize - singleElementPrefixSize) / k with k >= 2, hence 2*key + prefix <= element limit", "maxInlineMapKeySize is no longer derived as (element limit - element prefix)/2: a maximal key plus an equally large value may exceed the per-element limit")
	check("limits-positive", c.leqAll(linC(1), g["maxInlineArrayElementSize"].lo) && c.leqAll(linC(1), g["maxInlineMapKeySize"].lo), "inline limits are >= 1", "an inline limit can be zero or negative")
	r.Decide(len(c.underflow) == 0, R, "no-unsigned-underflow", p.Pos(f.Pos()), "no unsigned subtraction can underflow", "unsigned subtraction can underflow: "+fmt.Sprint(c.underflow))
	// maxInlineMapValueSize(keySize) = maxInlineMapElementSize - keySize - singleElementPrefixSize
	if mv := p.PkgFunc("maxInlineMapValueSize"); mv != nil && len(mv.Params) == 1 {
		okShape := false
		for _, ret := range returnsOf(mv) {
			// (E - key) - prefix
			if bo, ok := ret.Results[0].(*ssa.BinOp); ok && bo.Op == token.SUB {
				if k, ok := constInt(bo.Y); ok {
					if pv, ok2 := p.constVal("singleElementPrefixSize"); ok2 && pv == k {
						if in, ok := bo.X.(*ssa.BinOp); ok && in.Op == token.SUB && in.Y == ssa.Value(mv.Params[0]) {
							if u, ok := in.X.(*ssa.UnOp); ok {
								if gl, ok := u.X.(*ssa.Global); ok && gl.Name() == "maxInlineMapElementSize" {
									okShape = true
								}
							}
						}
					}
				}
			}
		}
		r.Decide(okShape, R, "value-limit-shape", p.Pos(mv.Pos()), "maxInlineMapValueSize(k) = maxInlineMapElementSize - k - singleElementPrefixSize", "maxInlineMapValueSize is no longer element limit minus key size minus element prefix")
	}
}

// L18 encodability of inlined containers: an inlined array or map is written with a one-byte index into the slab's
// inlined-extra-data section (maxInlinedExtraDataIndex). Map extra data is never shared and array extra data only
// between equal types, so a slab must not be able to hold more inlined containers than that index can address:
// (maxThreshold(t) - root prefix) / (smallest inlined container) <= maxInlinedExtraDataIndex + 1 for every slab size t.
func ruleL18(p *Prog, r *Report) {
	const R = "L18"
	f := p.PkgFunc("setThreshold")
	tmin, ok1 := p.constVal("minSlabSize")
	tmax, ok2 := p.constVal("maxSlabSize")
	maxIdx, ok3 := p.constVal("maxInlinedExtraDataIndex")
	inl, ok4 := p.constVal("inlinedArrayDataSlabPrefixSize")
	root, ok5 := p.constVal("arrayRootDataSlabPrefixSize")
	if f == nil || len(f.Params) != 1 || !ok1 || !ok2 || !ok3 || !ok4 || !ok5 {
		r.Unk(R, "anchor:inlined-extra-data-capacity", "-", "setThreshold / size constants not found")
		return
	}
	// the limit is enforced by the encoders only (an error at commit time), nothing in the mutation path bounds the count
	enforcedAtEncode := 0
	for _, g := range p.TopFuncs() {
		eachInstr(g, func(in ssa.Instruction) {
			bo, ok := in.(*ssa.BinOp)
			if !ok || bo.Op != token.GTR {
				return
			}
			if k, ok := constInt(bo.Y); ok && k == maxIdx && strings.Contains(strings.ToLower(g.Name()), "encode") {
				enforcedAtEncode++
			}
		})
	}
	c, globals := p.l5Globals(f, tmin, tmax)
	mt, ok := globals["maxThreshold"]
	if !ok || !mt.ok {
		r.Unk(R, "bound:inlined-extra-data-capacity", p.Pos(f.Pos()), "maxThreshold is outside the affine vocabulary")
		return
	}
	capBytes := linC((maxIdx + 1) * inl)
	fits := c.leqAll(mt.hi.sub(linC(root)), capBytes)
	// smallest slab size at which the bound fails (for the report)
	worst := new(big.Rat).Sub(mt.hi.at(tmax), big.NewRat(root, 1))
	perSlab := new(big.Rat).Quo(worst, big.NewRat(inl, 1))
	r.Decide(fits, R, "bound:inlined-extra-data-capacity", p.Pos(f.Pos()),
		fmt.Sprintf("a slab can hold at most %d inlined containers for every slab size in [%d, %d]", maxIdx+1, tmin, tmax),
		fmt.Sprintf("a slab of the largest size can hold about %s empty inlined containers, but their extra data is addressed by a one-byte index (limit %d, checked only by %d encoder sites): once a slab holds more than %d inlined maps (or arrays of distinct types) every commit fails with an encoding error, for every slab size above about %d bytes", perSlab.FloatString(0), maxIdx, enforcedAtEncode, maxIdx+1, ((maxIdx+1)*inl+root)*2/3))
}
