package main

import (
	"go/token"
	"go/types"

	"golang.org/x/tools/go/ssa"
)

// P14 a pointer that is nil on some path is not dereferenced on that path (whole library; written for the decoders).
//
// The decoders build some parts only for some registers (`var extraData *X; if isRoot { extraData, err = ... }`) and
// carry the pointer along; in SSA this is a phi with a nil edge. Obligation per dereference (field address, load,
// array index through the pointer) of such a phi: on every path from a nil edge to
// the dereference, a test contradicts it - the dereference is on the non-nil edge of a nil test of the pointer, or it
// lies under the same condition (same SSA value, same polarity) that guarded the assignment. The walk from each nil
// edge prunes the branches that the conditions known on that edge exclude; reaching the dereference is a finding: a
// crafted register of the other kind (a non-root slab, say) makes the decoder panic instead of returning an error.
func ruleP14(p *Prog, r *Report) {
	const R = "P14"
	dscope, _ := p.decodeScope()
	// the whole library is scanned (a nil dereference is a panic wherever it happens); the decode scope is the part
	// C19 speaks of and is counted separately
	scope := map[*ssa.Function]bool{}
	for _, f := range p.TopFuncs() {
		if !p.IsTestFile(f.Pos()) {
			scope[f] = true
		}
	}
	n, nPhi := 0, 0
	type assume struct {
		c ssa.Value
		k int
	}
	norm := func(c ssa.Value, k int) (ssa.Value, int) {
		for {
			u, ok := c.(*ssa.UnOp)
			if !ok || u.Op != token.NOT {
				return c, k
			}
			c, k = u.X, 1-k
		}
	}
	for _, top := range sortedFuncs(p, scope) {
		eachInstrDeep(top, func(fn *ssa.Function, in ssa.Instruction) {
			var base ssa.Value
			switch x := in.(type) {
			case *ssa.FieldAddr:
				base = x.X
			case *ssa.IndexAddr:
				if _, ok := x.X.Type().Underlying().(*types.Pointer); ok {
					base = x.X
				}
			case *ssa.UnOp:
				if x.Op == token.MUL {
					base = x.X
				}
			}
			ph, ok := base.(*ssa.Phi)
			if !ok {
				return
			}
			if _, isPtr := ph.Type().Underlying().(*types.Pointer); !isPtr {
				return
			}
			nPhi++
			// nil edges (through nested phis)
			type nilEdge struct {
				ph *ssa.Phi
				i  int
			}
			var edges []nilEdge
			seen := map[*ssa.Phi]bool{}
			var collect func(q *ssa.Phi)
			collect = func(q *ssa.Phi) {
				if seen[q] {
					return
				}
				seen[q] = true
				for i, e := range q.Edges {
					if isNilConst(e) {
						edges = append(edges, nilEdge{q, i})
					} else if q2, ok := e.(*ssa.Phi); ok {
						collect(q2)
					}
				}
			}
			collect(ph)
			if len(edges) == 0 {
				return
			}
			n++
			cons := "nil-on-some-path:" + p.Name(fn) + ":" + ph.Comment
			if knownNonNil(ph, in.Block()) {
				r.Ok(R, cons, p.InstrPos(in), "dereference on the non-nil edge of a nil test of the pointer")
				return
			}
			for _, ne := range edges {
				pred := ne.ph.Block().Preds[ne.i]
				var as []assume
				// the edge pred -> phi block itself
				if ifi, ok := pred.Instrs[len(pred.Instrs)-1].(*ssa.If); ok {
					for k, s := range pred.Succs {
						if s == ne.ph.Block() && pred.Succs[1-k] != s {
							c, kk := norm(ifi.Cond, k)
							as = append(as, assume{c, kk})
						}
					}
				}
				for _, blk := range fn.Blocks {
					ifi, ok := blk.Instrs[len(blk.Instrs)-1].(*ssa.If)
					if !ok {
						continue
					}
					for k := range blk.Succs {
						if edgeDominates(blk, k, pred) {
							c, kk := norm(ifi.Cond, k)
							as = append(as, assume{c, kk})
						}
					}
				}
				excluded := func(from *ssa.BasicBlock, succ int) bool {
					ifi, ok := from.Instrs[len(from.Instrs)-1].(*ssa.If)
					if !ok {
						return true
					}
					c, k := norm(ifi.Cond, succ)
					if x, nn, ok := nilTestOf(ifi); ok && (x == ssa.Value(ne.ph) || x == ssa.Value(ph)) && succ == nn {
						return false // the pointer is nil on this walk: the non-nil edge is not taken
					}
					for _, a := range as {
						if (a.c == c || sameValue(a.c, c)) && a.k != k {
							return false
						}
					}
					return true
				}
				reached := false
				first := ne.ph.Block().Instrs[0]
				reachFrom(fn, first, excluded, func(z ssa.Instruction) bool {
					if reached {
						return true
					}
					if z == in {
						reached = true
						return true
					}
					return false
				})
				if reached {
					r.Bad(R, cons, p.InstrPos(in), "the pointer is nil when control arrives from "+p.InstrPos(pred.Instrs[len(pred.Instrs)-1])+" (the part is only built for some registers), and this dereference is reachable from there with no test that excludes it: a crafted register of the other kind makes the decoder panic instead of returning an error")
					return
				}
			}
			r.Ok(R, cons, p.InstrPos(in), "every path from a nil edge to the dereference is excluded by a test (of the pointer, or the condition that guarded the assignment)")
		})
	}
	r.Decide(true, R, "pointer-phis-examined", "-", "dereferences of pointer phis in library code: "+itoa(nPhi)+", of which with a nil edge: "+itoa(n)+"; functions scanned: "+itoa(len(scope))+" (decode scope: "+itoa(len(dscope))+")", "")
	r.Floor(R, "functions of the decode scope", 40, len(dscope))
	r.Floor(R, "dereferences of pointer phis", 10, nPhi)
}

