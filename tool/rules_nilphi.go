package main

import (
	"go/token"
	"go/types"

	"golang.org/x/tools/go/ssa"
)

// P14 a pointer that is nil on some path is not dereferenced on that path (whole library; written for the decoders).
//
// The decoders build some parts only for some registers (`var extraData *X; if isRoot { extraData, err = ... }`) and
// carry the pointer along; in SSA this is a phi with a nil edge. Obligation per dereference (field address, load,
// array index through the pointer) of such a phi: on every path from a nil edge to
// the dereference, a test contradicts it - the dereference is on the non-nil edge of a nil test of the pointer, or it
// lies under the same condition (same SSA value, same polarity) that guarded the assignment. The walk from each nil
// edge prunes the branches that the conditions known on that edge exclude; reaching the dereference is a finding: a
// crafted register of the other kind (a non-root slab, say) makes the decoder panic instead of returning an error.
func ruleP14(p *Prog, r *Report) {
	const R = "P14"
	dscope, _ := p.decodeScope()
	// the whole library is scanned (a nil dereference is a panic wherever it happens); the decode scope is the part
	// C19 speaks of and is counted separately
	scope := map[*ssa.Function]bool{}
	for _, f := range p.TopFuncs() {
		if !p.IsTestFile(f.Pos()) {
			scope[f] = true
		}
	}
	n, nPhi := 0, 0
	type assume struct {
		c ssa.Value
		k int
	}
	norm := func(c ssa.Value, k int) (ssa.Value, int) {
		for {
			u, ok := c.(*ssa.UnOp)
			if !ok || u.Op != token.NOT {
				return c, k
			}
			c, k = u.X, 1-k
		}
	}
	for _, top := range sortedFuncs(p, scope) {
		eachInstrDeep(top, func(fn *ssa.Function, in ssa.Instruction) {
			var base ssa.Value
			switch x := in.(type) {
			case *ssa.FieldAddr:
				base = x.X
			case *ssa.IndexAddr:
				if _, ok := x.X.Type().Underlying().(*types.Pointer); ok {
					base = x.X
				}
			case *ssa.UnOp:
				if x.Op == token.MUL {
					base = x.X
				}
			}
			ph, ok := base.(*ssa.Phi)
			if !ok {
				return
			}
			if _, isPtr := ph.Type().Underlying().(*types.Pointer); !isPtr {
				return
			}
			nPhi++
			// nil edges (through nested phis)
			type nilEdge struct {
				ph *ssa.Phi
				i  int
			}
			var edges []nilEdge
			seen := map[*ssa.Phi]bool{}
			var collect func(q *ssa.Phi)
			collect = func(q *ssa.Phi) {
				if seen[q] {
					return
				}
				seen[q] = true
				for i, e := range q.Edges {
					if isNilConst(e) {
						edges = append(edges, nilEdge{q, i})
					} else if q2, ok := e.(*ssa.Phi); ok {
						collect(q2)
					}
				}
			}
			collect(ph)
			if len(edges) == 0 {
				return
			}
			n++
			cons := "nil-on-some-path:" + p.Name(fn) + ":" + ph.Comment
			if knownNonNil(ph, in.Block()) {
				r.Ok(R, cons, p.InstrPos(in), "dereference on the non-nil edge of a nil test of the pointer")
				return
			}
			for _, ne := range edges {
				pred := ne.ph.Block().Preds[ne.i]
				var as []assume
				// the edge pred -> phi block itself
				if ifi, ok := pred.Instrs[len(pred.Instrs)-1].(*ssa.If); ok {
					for k, s := range pred.Succs {
						if s == ne.ph.Block() && pred.Succs[1-k] != s {
							c, kk := norm(ifi.Cond, k)
							as = append(as, assume{c, kk})
						}
					}
				}
				for _, blk := range fn.Blocks {
					ifi, ok := blk.Instrs[len(blk.Instrs)-1].(*ssa.If)
					if !ok {
						continue
					}
					for k := range blk.Succs {
						if edgeDominates(blk, k, pred) {
							c, kk := norm(ifi.Cond, k)
							as = append(as, assume{c, kk})
						}
					}
				}
				excluded := func(from *ssa.BasicBlock, succ int) bool {
					ifi, ok := from.Instrs[len(from.Instrs)-1].(*ssa.If)
					if !ok {
						return true
					}
					c, k := norm(ifi.Cond, succ)
					if x, nn, ok := nilTestOf(ifi); ok && (x == ssa.Value(ne.ph) || x == ssa.Value(ph)) && succ == nn {
						return false // the pointer is nil on this walk: the non-nil edge is not taken
					}
					for _, a := range as {
						if (a.c == c || sameValue(a.c, c)) && a.k != k {
							return false
						}
					}
					return true
				}
				reached := false
				first := ne.ph.Block().Instrs[0]
				reachFrom(fn, first, excluded, func(z ssa.Instruction) bool {
					if reached {
						return true
					}
					if z == in {
						reached = true
						return true
					}
					return false
				})
				if reached {
					r.Bad(R, cons, p.InstrPos(in), "the pointer is nil when control arrives from "+p.InstrPos(pred.Instrs[len(pred.Instrs)-1])+" (the part is only built for some registers), and this dereference is reachable from there with no test that excludes it: a crafted register of the other kind makes the decoder panic instead of returning an error")
					return
				}
			}
			r.Ok(R, cons, p.InstrPos(in), "every path from a nil edge to the dereference is excluded by a test (of the pointer, or the condition that guarded the assignment)")
		})
	}
	r.Decide(true, R, "pointer-phis-examined", "-", "dereferences of pointer phis in library code: "+itoa(nPhi)+", of which with a nil edge: "+itoa(n)+"; functions scanned: "+itoa(len(scope))+" (decode scope: "+itoa(len(dscope))+")", "")
	r.Floor(R, "functions of the decode scope", 40, len(dscope))
	r.Floor(R, "dereferences of pointer phis", 10, nPhi)
}


// P16 the value of a comma-ok type assertion is used only where the flag was looked at.
//
// `v, _ := x.(T)` yields the zero T when x is something else; wrapped in an interface again (a helper that "returns nil
// if the entry is not a T") the typed nil pointer compares unequal to nil and the caller's nil check lets it through -
// the first method call dereferences nil. Obligation per comma-ok assertion in library code whose value result is
// used: the ok result is used too (tested, returned or stored).
func ruleP16(p *Prog, r *Report) {
	const R = "P16"
	n := 0
	for _, f := range p.Funcs {
		if p.IsTestFile(f.Pos()) || len(f.Blocks) == 0 {
			continue
		}
		eachInstr(f, func(in ssa.Instruction) {
			ta, ok := in.(*ssa.TypeAssert)
			if !ok || !ta.CommaOk {
				return
			}
			var val, flag *ssa.Extract
			for _, ref := range *ta.Referrers() {
				if ex, ok := ref.(*ssa.Extract); ok {
					if ex.Index == 0 {
						val = ex
					} else {
						flag = ex
					}
				}
			}
			if val == nil || val.Referrers() == nil || len(*val.Referrers()) == 0 {
				return
			}
			n++
			used := flag != nil && flag.Referrers() != nil && len(*flag.Referrers()) > 0
			if !used {
				// `p, _ := x.(*T); if p == nil { .. }` is the same test spelled differently: accepted when the pointer never
				// goes back into an interface and is only dereferenced where it is known non-nil
				if _, isPtr := val.Type().Underlying().(*types.Pointer); isPtr {
					safe := true
					for _, u := range *val.Referrers() {
						switch y := u.(type) {
						case *ssa.BinOp:
							// comparisons are fine
						case *ssa.FieldAddr, *ssa.Call, *ssa.UnOp:
							if !knownNonNil(val, u.Block()) {
								safe = false
							}
							_ = y
						default:
							safe = false
						}
					}
					used = safe
				}
			}
			r.Decide(used, R, "assertion-flag-consulted:"+p.Name(f), p.InstrPos(in), "the ok result of the assertion is used", "the value of a comma-ok type assertion is used although its ok result is discarded: when the operand is of another type the zero value flows on - a nil pointer that, once wrapped in an interface again, no longer compares equal to nil")
		})
	}
	r.Floor(R, "comma-ok assertions whose value is used", 20, n)
}

// P17 a client decoder is handed a stream positioned at the start of its item.
//
// TypeInfoDecoder / StorableDecoder callbacks decode one whole CBOR item, tag included. A routine that peeks by
// *consuming* the tag number (DecodeTagNumber) and then, finding a tag it does not own, passes the same stream to the
// callback makes the callback decode the tag's content as if it were the item: a tagged type info comes back as
// another type. Obligation per call of a func-typed value that is given a stream decoder: if a DecodeTagNumber on the
// same decoder can reach it in the same function, the call lies on the equal edge of a comparison of that tag number
// with a constant (a tag the library owns and whose content the callback is meant to read).
func ruleP17(p *Prog, r *Report) {
	const R = "P17"
	n := 0
	scope, _ := p.decodeScope()
	for _, top := range sortedFuncs(p, scope) {
		eachInstrDeep(top, func(fn *ssa.Function, in ssa.Instruction) {
			c, ok := in.(*ssa.Call)
			if !ok || c.Call.StaticCallee() != nil || c.Call.IsInvoke() {
				return
			}
			if _, isB := c.Call.Value.(*ssa.Builtin); isB {
				return
			}
			var dec ssa.Value
			for _, a := range c.Call.Args {
				if typeName(a.Type()) == "StreamDecoder" {
					dec = a
				}
			}
			if dec == nil {
				return
			}
			n++
			cons := "callback-at-item-start:" + p.Name(fn)
			bad := ""
			eachInstr(fn, func(y ssa.Instruction) {
				tc, ok := y.(*ssa.Call)
				if !ok || calleeName(tc) != "DecodeTagNumber" || callRecv(tc) == nil || !sameValue(callRecv(tc), dec) {
					return
				}
				if canReach(fn, y, func(z ssa.Instruction) bool { return z == in }, nil) == nil {
					return
				}
				var tag ssa.Value
				for _, ref := range *tc.Referrers() {
					if ex, ok := ref.(*ssa.Extract); ok && ex.Index == 0 {
						tag = ex
					}
				}
				owned := false
				if tag != nil {
					for _, b := range fn.Blocks {
						ifi, ok := b.Instrs[len(b.Instrs)-1].(*ssa.If)
						if !ok {
							continue
						}
						bo, ok := ifi.Cond.(*ssa.BinOp)
						if !ok || (bo.Op != token.EQL && bo.Op != token.NEQ) {
							continue
						}
						isTag := func(v ssa.Value) bool { return v == tag || sameValue(canonConv(v), canonConv(tag)) }
						_, kx := cInt(bo.X)
						_, ky := cInt(bo.Y)
						if !((isTag(bo.X) && ky) || (isTag(bo.Y) && kx)) {
							continue
						}
						eq := 0
						if bo.Op == token.NEQ {
							eq = 1
						}
						if edgeDominates(b, eq, in.Block()) {
							owned = true
						}
					}
				}
				if !owned {
					bad = p.InstrPos(y)
				}
			})
			r.Decide(bad == "", R, cons, p.InstrPos(in), "no tag number was taken from the stream before it is handed to the callback (or the tag is one the library owns)", "the stream handed to the client's decoder has already lost a tag number (DecodeTagNumber at "+bad+") that was not found equal to a tag the library owns: the callback decodes the tag's content as the whole item, so a tagged value comes back as something else")
		})
	}
	r.Floor(R, "client decoder callbacks given a stream", 5, n)
}

// L37 a decoded size is the sum of what the parts report, not the number of bytes read.
//
// Encoded length and reported size differ on purpose for inlined composite maps (keys and digests are hoisted into the
// shared extra data: fewer bytes in the register than the element reports). A decoder that sizes a list by the bytes
// its stream consumed produces slabs that report less than the in-memory twin that wrote them. Obligation: in the
// decode scope no value stored into a `size` field (directly or in a literal) derives from NumBytesDecoded().
func ruleL37(p *Prog, r *Report) {
	const R = "L37"
	n := 0
	scope, _ := p.decodeScope()
	consumed := func(v ssa.Value) bool {
		return sliceContains(v, func(x ssa.Value) bool {
			c, ok := x.(*ssa.Call)
			return ok && calleeName(c) == "NumBytesDecoded"
		}, 0, map[ssa.Value]bool{})
	}
	for _, top := range sortedFuncs(p, scope) {
		eachInstrDeep(top, func(fn *ssa.Function, in ssa.Instruction) {
			st, ok := in.(*ssa.Store)
			if !ok {
				return
			}
			fa, ok := st.Addr.(*ssa.FieldAddr)
			if !ok {
				return
			}
			if _, name := structFieldName(fa.X.Type(), fa.Field); name != "size" {
				return
			}
			n++
			r.Decide(!consumed(st.Val), R, "size-from-parts:"+p.Name(fn), p.InstrPos(in), "the size does not derive from the number of bytes consumed", "a decoded size is computed from the number of bytes the stream consumed: elements whose reported size differs from their encoded length (inlined composite maps with hoisted keys) make the decoded slab report less than the slab that was written")
		})
	}
	r.Floor(R, "size fields set by decoders", 8, n)
}

// L38 what Set / Remove hand back is what the container reported as overwritten / removed.
//
// The caller disposes of the storable it gets back and reads "nil" as "the key was new". Obligation per success
// return of an exported method of a handle type with results (Storable, error) [or (Storable, Storable, error)]:
// each storable result derives from a storable result of a call made in the method (the worker's answer, possibly
// passed through the un-inlining helper), or it is the constant nil on a path on which such an answer was itself
// found nil.
func ruleL38(p *Prog, r *Report) {
	const R = "L38"
	n := 0
	for _, top := range p.TopFuncs() {
		if p.IsTestFile(top.Pos()) || !isHandleType(recvName(top)) || top.Object() == nil || !top.Object().Exported() {
			continue
		}
		res := top.Signature.Results()
		if res.Len() < 2 || !isErrorType(res.At(res.Len()-1).Type()) {
			continue
		}
		var pos []int
		for i := 0; i < res.Len()-1; i++ {
			if tn := typeName(res.At(i).Type()); tn == "Storable" || tn == "MapKey" || tn == "MapValue" {
				pos = append(pos, i)
			}
		}
		if len(pos) == 0 {
			continue
		}
		// storable answers of calls made here
		var answers []ssa.Value
		eachInstr(top, func(in ssa.Instruction) {
			c, ok := in.(*ssa.Call)
			if !ok {
				return
			}
			tup, ok := c.Type().(*types.Tuple)
			if !ok {
				return
			}
			for _, ref := range *c.Referrers() {
				if ex, ok := ref.(*ssa.Extract); ok && ex.Index < tup.Len() {
					if tn := typeName(ex.Type()); tn == "Storable" || tn == "MapKey" || tn == "MapValue" {
						answers = append(answers, ex)
					}
				}
			}
		})
		if len(answers) == 0 {
			continue
		}
		isAnswer := func(x ssa.Value) bool {
			for _, a := range answers {
				if x == a {
					return true
				}
			}
			return false
		}
		for _, ret := range returnsOf(top) {
			if cl, _ := classifyReturn(ret); cl == retError {
				continue
			}
			for _, i := range pos {
				if i >= len(ret.Results) {
					continue
				}
				n++
				v := ret.Results[i]
				ok := sliceContains(v, isAnswer, 0, map[ssa.Value]bool{})
				if !ok && isNilConst(canon(v)) {
					for _, a := range answers {
						if knownNil(a, ret.Block()) {
							ok = true
						}
					}
				}
				r.Decide(ok, R, "answer-handed-back:"+p.Name(top), p.InstrPos(ret), "the storable handed back is the worker's answer (or nil where that answer was nil)", "a success return hands back a storable that is not the one the container reported (a constant nil although an existing value was overwritten, or something else): the caller reads it as 'the key was new' and never disposes of - or wrongly disposes of - the previous value")
			}
		}
	}
	r.Floor(R, "storables handed back by Set / Remove", 4, n)
}

// L39 a position read from an index map is read with its presence flag.
//
// `m[k]` on a map with integer values answers 0 for an absent key - a valid position. Where such a value is handed on
// (written to a register as a reference, used as an index), the lookup must be the comma-ok form with the flag
// tested, or be dominated by the found edge of such a lookup of the same key. A global "the table is not empty" test
// is not that: an inlined child whose type occurs once would be written as a reference to entry 0.
func ruleL39(p *Prog, r *Report) {
	const R = "L39"
	n := 0
	for _, f := range p.Funcs {
		if p.IsTestFile(f.Pos()) || len(f.Blocks) == 0 {
			continue
		}
		eachInstr(f, func(in ssa.Instruction) {
			lk, ok := in.(*ssa.Lookup)
			if !ok {
				return
			}
			mt, ok := lk.X.Type().Underlying().(*types.Map)
			if !ok {
				return
			}
			bt, ok := mt.Elem().Underlying().(*types.Basic)
			if !ok || bt.Info()&types.IsInteger == 0 {
				return
			}
			n++
			cons := "position-with-presence:" + p.Name(f)
			if lk.CommaOk {
				// the flag must be looked at
				used := false
				for _, ref := range *lk.Referrers() {
					if ex, ok := ref.(*ssa.Extract); ok && ex.Index == 1 && ex.Referrers() != nil && len(*ex.Referrers()) > 0 {
						used = true
					}
				}
				r.Decide(used, R, cons, p.InstrPos(in), "the presence flag of the lookup is used", "the presence flag of a lookup in an index map is discarded: an absent key reads as position 0")
				return
			}
			// plain form: fine if the value is only compared / counted, or a found edge of the same lookup dominates
			handedOn := false
			for _, ref := range *lk.Referrers() {
				switch ref.(type) {
				case *ssa.BinOp, *ssa.MapUpdate, *ssa.If:
				default:
					handedOn = true
				}
			}
			if !handedOn {
				r.Ok(R, cons, p.InstrPos(in), "the value is only compared or written back (a counter)")
				return
			}
			guarded := false
			for _, b := range f.Blocks {
				ifi, ok := b.Instrs[len(b.Instrs)-1].(*ssa.If)
				if !ok {
					continue
				}
				ex, ok := canon(ifi.Cond).(*ssa.Extract)
				if !ok || ex.Index != 1 {
					continue
				}
				l2, ok := ex.Tuple.(*ssa.Lookup)
				if !ok || !l2.CommaOk || !sameValue(l2.X, lk.X) || !sameValue(l2.Index, lk.Index) {
					continue
				}
				if edgeDominates(b, 0, in.Block()) {
					guarded = true
				}
			}
			r.Decide(guarded, R, cons, p.InstrPos(in), "a found edge of a comma-ok lookup of the same key dominates", "a position is read from an index map without its presence flag and handed on: for an absent key the map answers 0, which is a valid position - the entry is written as a reference to element 0 (an inlined child comes back with another child's type)")
		})
	}
	r.Floor(R, "lookups in integer-valued maps", 3, n)
}

// L40 the "there was a value under this key" answer of an element-level Set is looked at.
//
// element.Set / MapSlab.Set answer (key, existing value, ...): a non-nil existing value means the key was present - no
// new entry, count unchanged, and in a batch build a duplicate key. Obligation per such call whose results are
// received: the existing-value result is used (tested for nil, returned or handed on). A caller that discards it and
// goes on to count the key counts an overwrite as an insert.
func ruleL40(p *Prog, r *Report) {
	const R = "L40"
	n := 0
	for _, f := range p.Funcs {
		if p.IsTestFile(f.Pos()) || len(f.Blocks) == 0 {
			continue
		}
		eachInstr(f, func(in ssa.Instruction) {
			c, ok := in.(*ssa.Call)
			if !ok || calleeName(c) != "Set" {
				return
			}
			tup, ok := c.Type().(*types.Tuple)
			if !ok {
				return
			}
			idx := -1
			for i := 0; i < tup.Len(); i++ {
				if typeName(tup.At(i).Type()) == "MapValue" {
					idx = i
				}
			}
			if idx < 0 {
				return
			}
			n++
			used := false
			for _, ref := range *c.Referrers() {
				if ex, ok := ref.(*ssa.Extract); ok && ex.Index == idx && ex.Referrers() != nil && len(*ex.Referrers()) > 0 {
					used = true
				}
			}
			r.Decide(used, R, "existing-value-consulted:"+p.Name(f), p.InstrPos(in), "the existing-value answer of the element-level Set is used", "the existing-value answer of an element-level Set is discarded: an overwrite is indistinguishable from an insert here, so a key provided twice is counted twice (Count() exceeds the number of entries) and its first value is dropped without being handed back")
		})
	}
	r.Floor(R, "element-level Set calls", 8, n)
}

// S19 an empty register is an absent register.
//
// LedgerBaseStorage.Remove clears a register by writing a nil value; what a ledger hands back for it later is up to
// the ledger - nil, or an empty slice (a defensive copy, a deserialised empty payload). Obligation: the found flag
// the ledger-backed Retrieve returns next to the bytes is decided by their length, not by a comparison with nil;
// otherwise a removed register reads as present-but-undecodable after the cache is dropped.
func ruleS19(p *Prog, r *Report) {
	const R = "S19"
	n := 0
	for _, top := range p.TopFuncs() {
		if p.IsTestFile(top.Pos()) || top.Name() != "Retrieve" || len(top.Params) == 0 {
			continue
		}
		// a Retrieve that reads through the Ledger interface
		var get *ssa.Call
		eachInstr(top, func(in ssa.Instruction) {
			if c, ok := in.(*ssa.Call); ok && c.Call.IsInvoke() && c.Call.Method.Name() == "GetValue" && typeName(c.Call.Value.Type()) == "Ledger" {
				get = c
			}
		})
		if get == nil {
			continue
		}
		for _, ret := range returnsOf(top) {
			if cl, _ := classifyReturn(ret); cl == retError || len(ret.Results) < 2 {
				continue
			}
			n++
			fv := canon(ret.Results[1])
			okLen := sliceContains(fv, func(x ssa.Value) bool {
				_, isLen := isLenOf(x)
				return isLen
			}, 0, map[ssa.Value]bool{})
			nilCmp := sliceContains(fv, func(x ssa.Value) bool {
				bo, ok := x.(*ssa.BinOp)
				return ok && (isNilConst(bo.X) || isNilConst(bo.Y))
			}, 0, map[ssa.Value]bool{})
			r.Decide(okLen && !nilCmp, R, "empty-register-is-absent:"+p.Name(top), p.InstrPos(ret), "the found flag is decided by the length of the value read", "the found flag of the ledger-backed Retrieve is not decided by the length of the value (a nil comparison, or something else): a register cleared by Remove that the ledger hands back as an empty slice is reported present, and the slab fails to decode after the read cache was dropped")
		}
	}
	r.Floor(R, "ledger-backed Retrieve returns", 1, n)
}

// P18 decode scope: no division or remainder by a value that can be zero.
//
// An integer division by zero panics. Obligation per `/` or `%` in the decode scope whose divisor is not a non-zero
// constant: the operation is dominated by the non-zero edge of a comparison of the divisor with zero (`d != 0`,
// `d > 0`, `d == 0` taken on its false edge, `d >= 1`).
func ruleP18(p *Prog, r *Report) {
	const R = "P18"
	n, nVar := 0, 0
	scope, _ := p.decodeScope()
	for _, top := range sortedFuncs(p, scope) {
		eachInstrDeep(top, func(fn *ssa.Function, in ssa.Instruction) {
			bo, ok := in.(*ssa.BinOp)
			if !ok || (bo.Op != token.QUO && bo.Op != token.REM) {
				return
			}
			if bt, ok := bo.Type().Underlying().(*types.Basic); !ok || bt.Info()&types.IsInteger == 0 {
				return
			}
			n++
			if k, isK := cInt(bo.Y); isK {
				if k == 0 {
					r.Bad(R, "divisor-nonzero:"+p.Name(fn), p.InstrPos(in), "division by the constant zero")
				}
				return
			}
			nVar++
			d := bo.Y
			guarded := false
			for _, b := range fn.Blocks {
				ifi, ok := b.Instrs[len(b.Instrs)-1].(*ssa.If)
				if !ok {
					continue
				}
				c, ok := ifi.Cond.(*ssa.BinOp)
				if !ok {
					continue
				}
				isD := func(v ssa.Value) bool { return v == d || sameValue(canonConv(v), canonConv(d)) }
				z := func(v ssa.Value) (int64, bool) { return cInt(v) }
				var nonZeroEdge = -1
				if isD(c.X) {
					if k, ok := z(c.Y); ok {
						switch {
						case c.Op == token.NEQ && k == 0, c.Op == token.GTR && k >= 0, c.Op == token.GEQ && k >= 1:
							nonZeroEdge = 0
						case c.Op == token.EQL && k == 0, c.Op == token.LEQ && k >= 0, c.Op == token.LSS && k >= 1:
							nonZeroEdge = 1
						}
					}
				}
				if nonZeroEdge >= 0 && edgeDominates(b, nonZeroEdge, in.Block()) {
					guarded = true
				}
			}
			r.Decide(guarded, R, "divisor-nonzero:"+p.Name(fn), p.InstrPos(in), "the divisor was found non-zero on the way here", "a value decoded from the register (or derived from it) is used as a divisor without a dominating non-zero test: a register that carries 0 there makes the decoder panic with an integer divide by zero")
		})
	}
	r.Decide(true, R, "divisions-examined", "-", "integer divisions / remainders in the decode scope: "+itoa(n)+", of which with a non-constant divisor: "+itoa(nVar), "")
	r.Floor(R, "integer divisions in the decode scope", 1, n)
}

// K6 the caller's comparator decides key equality - it is handed down as it is.
//
// Digest agreement is not key equality; only the caller's ValueComparator says whether two keys are the same key.
// Obligation per call in library code that passes an argument of type ValueComparator: the argument is a parameter of
// that type (of the function or, inside a closure, of an enclosing function) - never a function literal or another
// value built on the way, which could answer "equal" without asking the comparator.
func ruleK6(p *Prog, r *Report) {
	const R = "K6"
	n := 0
	for _, f := range p.Funcs {
		if p.IsTestFile(f.Pos()) || len(f.Blocks) == 0 {
			continue
		}
		eachInstr(f, func(in ssa.Instruction) {
			c, ok := in.(ssa.CallInstruction)
			if !ok {
				return
			}
			for _, a := range c.Common().Args {
				if typeName(a.Type()) != "ValueComparator" {
					continue
				}
				n++
				v := canon(a)
				good := false
				switch x := v.(type) {
				case *ssa.Parameter:
					good = true
				case *ssa.FreeVar:
					good = true // a captured parameter of the enclosing function
					_ = x
				case *ssa.UnOp:
					// load of a captured cell / field holding the comparator
					if _, isFV := x.X.(*ssa.FreeVar); isFV {
						good = true
					}
					if _, ok := asLoadedField(v); ok {
						good = true
					}
				}
				r.Decide(good, R, "comparator-handed-down:"+p.Name(f), p.InstrPos(in), "the comparator argument is the caller's comparator", "a call is given a comparator that is not the caller's comparator parameter (a function literal or a value built here): key equality may then be decided without asking the caller's comparator - a key that merely shares the digests of a stored key is reported present")
			}
		})
	}
	r.Floor(R, "calls that pass a comparator", 20, n)
}

// S20 a commit decides "nothing to do" by looking at the write set.
//
// Obligation per commit entry point: every success return is preceded, on every path, by the collection of the owned
// keys of the write set (the collector call, or a range over `deltas`). A shortcut that returns success from a
// companion flag ("nothing was stored since the last commit") is only as good as the flag's upkeep: cleared before the
// fallible work and not restored on failure, it makes every retry after a failed commit a no-op that reports success
// while the write set is still full.
func ruleS20(p *Prog, r *Report) {
	const R = "S20"
	n := 0
	for _, f := range p.commitGraph() {
		if !isCommitEntry(f) {
			continue
		}
		n++
		collects := func(z ssa.Instruction) bool {
			if fr, _, ok := rangeOverField(z); ok && fr.is(storageT, "deltas") {
				return true
			}
			c, ok := z.(*ssa.Call)
			if !ok {
				return false
			}
			// len(s.deltas): the size of the write set itself
			if bi, isB := c.Call.Value.(*ssa.Builtin); isB && bi.Name() == "len" && len(c.Call.Args) == 1 {
				if lf, ok := asLoadedField(c.Call.Args[0]); ok && lf.is(storageT, "deltas") {
					return true
				}
			}
			g := c.Call.StaticCallee()
			if g == nil || recvName(g) != storageT || len(g.Blocks) == 0 {
				return false
			}
			found := false
			eachInstrDeep(g, func(_ *ssa.Function, y ssa.Instruction) {
				if fr, _, ok := rangeOverField(y); ok && fr.is(storageT, "deltas") {
					found = true
				}
			})
			return found
		}
		bad := successReturnAvoiding(f, nil, collects)
		pos := p.Pos(f.Pos())
		if bad != nil {
			pos = p.InstrPos(bad)
		}
		r.Decide(bad == nil, R, "looks-at-the-write-set:"+p.Name(f), pos, "every success return comes after the owned keys of the write set were collected", "the commit can report success without having looked at the write set (a shortcut decided by something else - a flag, a counter): whenever that something is out of step with the write set, pending changes stay unwritten while the commit says they were written")
	}
	r.Floor(R, "commit entry points", 2, n)
}
