package main

import (
	"fmt"
	"go/ast"
	"go/token"
	"go/types"
	"sort"
	"strings"

	"golang.org/x/tools/go/ssa"
)

// refBearing: the type can hold a reference to another slab (SlabID, or an interface /
// container of something that can).
func refBearing(t types.Type, depth int) bool {
	if depth > 6 {
		return false
	}
	switch u := t.(type) {
	case *types.Named:
		switch u.Obj().Name() {
		case "SlabID", "SlabIDStorable":
			return u.Obj().Pkg() != nil && u.Obj().Pkg().Path() == rootPkgPath
		case "Storable", "MapKey", "MapValue", "element", "elements", "elementGroup", "Value":
			return u.Obj().Pkg() != nil && u.Obj().Pkg().Path() == rootPkgPath
		}
		return refBearing(u.Underlying(), depth+1)
	case *types.Alias:
		return refBearing(types.Unalias(u), depth+1)
	case *types.Pointer:
		return refBearing(u.Elem(), depth+1)
	case *types.Slice:
		return refBearing(u.Elem(), depth+1)
	case *types.Array:
		return refBearing(u.Elem(), depth+1)
	case *types.Struct:
		for i := 0; i < u.NumFields(); i++ {
			if refBearing(u.Field(i).Type(), depth+1) {
				return true
			}
		}
	}
	return false
}

// X2 reference coverage: every reference-bearing field of a slab / element type is read by the
// ChildStorables call graph.
func ruleX2(p *Prog, r *Report) {
	const R = "X2"
	exempt := map[string]string{
		"ArrayDataSlab.next":       "sibling link: by contract not a child reference (children are owned through the index slab)",
		"MapDataSlab.next":         "sibling link: by contract not a child reference",
		"ArrayDataSlab.header":     "the slab's own id",
		"ArrayMetaDataSlab.header": "the slab's own id",
		"MapDataSlab.header":       "the slab's own id",
		"MapMetaDataSlab.header":   "the slab's own id",
		"StorableSlab.slabID":      "the slab's own id",
	}
	// union of everything reachable from the ChildStorables methods of Slab implementers
	var roots []*ssa.Function
	slabI := p.LookupType("Slab")
	if slabI == nil {
		r.Unk(R, "anchor:Slab", "-", "interface Slab not found")
		return
	}
	members := map[*types.Named]bool{}
	for _, fam := range p.families() {
		for _, m := range fam.members {
			if n := namedOf(m); n != nil {
				if _, ok := n.Underlying().(*types.Struct); ok {
					members[n] = true
				}
			}
		}
	}
	for _, m := range p.ImplementersOf(slabI.Underlying().(*types.Interface)) {
		if f := p.Method(namedOf(m).Obj().Name(), "ChildStorables"); f != nil {
			roots = append(roots, f)
		}
	}
	read := map[string]bool{}
	for _, rt := range roots {
		for g := range p.ReachFine(rt) {
			eachInstr(g, func(in ssa.Instruction) {
				switch x := in.(type) {
				case *ssa.FieldAddr:
					if n, f := structFieldName(x.X.Type(), x.Field); n != nil {
						read[n.Obj().Name()+"."+f] = true
					}
				case *ssa.Field:
					if n, f := structFieldName(x.X.Type(), x.Field); n != nil {
						read[n.Obj().Name()+"."+f] = true
					}
				}
			})
		}
	}
	n := 0
	var names []*types.Named
	for m := range members {
		names = append(names, m)
	}
	sort.Slice(names, func(i, j int) bool { return names[i].Obj().Name() < names[j].Obj().Name() })
	for _, nt := range names {
		if nt.Obj().Name() == "ArrayExtraData" || nt.Obj().Name() == "MapExtraData" || strings.Contains(nt.Obj().Name(), "ExtraData") {
			continue
		}
		st := nt.Underlying().(*types.Struct)
		for i := 0; i < st.NumFields(); i++ {
			f := st.Field(i)
			if !refBearing(f.Type(), 0) {
				continue
			}
			key := nt.Obj().Name() + "." + f.Name()
			n++
			if why, ok := exempt[key]; ok {
				r.Ok(R, "ref-field:"+key, p.Pos(f.Pos()), "exempt: "+why)
				continue
			}
			r.Decide(read[key], R, "ref-field:"+key, p.Pos(f.Pos()), "field is read by the ChildStorables call graph",
				"a field that can hold a slab reference is not enumerated by ChildStorables: references stored there are invisible to the health check, the slab iterator and child-reference queries")
		}
	}
	// every ChildStorables of a data-bearing slab returns something derived from its fields (not a constant nil)
	for _, rt := range roots {
		constNil := true
		for _, ret := range returnsOf(rt) {
			if !isNilConst(ret.Results[0]) {
				constNil = false
			}
		}
		r.Decide(!constNil, R, "childstorables-nonempty:"+p.Name(rt), p.Pos(rt.Pos()), "returns a value built from the slab's fields", "ChildStorables returns a constant nil: the slab's references are not enumerable")
	}
	r.Floor(R, "reference-bearing fields", 10, n)
}

// walkerShape: fn (with closures) branches on SlabIDStorable and descends through Storable.ChildStorables.
func (p *Prog) walkerShape(fn *ssa.Function) (assertsSID, descends, startsFromSlab bool) {
	// the walker and the private same-package helpers it calls directly (a scan loop moved out)
	scope := []*ssa.Function{fn}
	seenFn := map[*ssa.Function]bool{fn: true}
	eachInstrDeep(fn, func(_ *ssa.Function, in ssa.Instruction) {
		if c, ok := in.(ssa.CallInstruction); ok {
			if g := staticCallee(c); g != nil && g.Pkg == p.RootSSA && !seenFn[g] && len(g.Blocks) > 0 && g.Object() != nil && !g.Object().Exported() && g.Signature.Recv() == nil {
				seenFn[g] = true
				scope = append(scope, g)
			}
		}
	})
	for _, sf := range scope {
		a, d, s := p.walkerShape1(sf)
		assertsSID, descends, startsFromSlab = assertsSID || a, descends || d, startsFromSlab || s
	}
	return
}

func (p *Prog) walkerShape1(fn *ssa.Function) (assertsSID, descends, startsFromSlab bool) {
	eachInstrDeep(fn, func(_ *ssa.Function, in ssa.Instruction) {
		if ta, ok := in.(*ssa.TypeAssert); ok && typeName(ta.AssertedType) == "SlabIDStorable" {
			assertsSID = true
		}
		if c, ok := in.(ssa.CallInstruction); ok && c.Common().IsInvoke() && c.Common().Method.Name() == "ChildStorables" {
			switch typeName(c.Common().Value.Type()) {
			case "Storable":
				descends = true
			case "Slab":
				startsFromSlab = true
			}
		}
	})
	return
}

// X3 traversal agreement between the three reference walkers, plus the health check's predicates.
func ruleX3(p *Prog, r *Report) {
	const R = "X3"
	walkers := []*ssa.Function{p.Method(storageT, "SlabIterator"), p.Method(storageT, "getAllChildReferences"), p.PkgFunc("CheckStorageHealth")}
	names := []string{"(*PersistentSlabStorage).SlabIterator", "(*PersistentSlabStorage).getAllChildReferences", "CheckStorageHealth"}
	n := 0
	for i, w := range walkers {
		if w == nil {
			r.Unk(R, "anchor:"+names[i], "-", "walker not found")
			continue
		}
		n++
		a, d, s := p.walkerShape(w)
		r.Decide(a && d && s, R, "walker:"+names[i], p.Pos(w.Pos()),
			"starts from Slab.ChildStorables, recognises SlabIDStorable references and descends through Storable.ChildStorables (inlined children, wrappers)",
			fmt.Sprintf("reference walker lost part of its shape (recognises SlabIDStorable=%v, descends into nested storables=%v, starts from slab children=%v): references inside inlined children or wrappers would be missed", a, d, s))
	}
	// SlabIterator enumerates every in-memory slab: it ranges over the write set and over the read cache themselves
	// (not over a collection that was filtered by owner) and applies no owner test to the keys. Temporary-address
	// slabs live only in the write set: an iterator that skips them hides roots and unreferenced slabs from the check.
	if w := walkers[0]; w != nil {
		for _, layer := range []string{"deltas", "cache"} {
			n++
			ranged := false
			filtered := ""
			// the iterator itself and the storage's own helpers it calls (a key collector)
			scopeFns := []*ssa.Function{w}
			eachInstrDeep(w, func(_ *ssa.Function, in ssa.Instruction) {
				if c, ok := in.(ssa.CallInstruction); ok {
					if g := staticCallee(c); g != nil && g.Pkg == p.RootSSA && recvName(g) == storageT && g != w {
						scopeFns = append(scopeFns, g)
					}
				}
			})
			visit := func(fn *ssa.Function, in ssa.Instruction) {
				fr, rg, ok := rangeOverField(in)
				if !ok || !fr.is(storageT, layer) {
					return
				}
				ranged = true
				_, keys := rangeKeyValues(rg)
				for _, b := range fn.Blocks {
					if ifi, ok := b.Instrs[len(b.Instrs)-1].(*ssa.If); ok {
						if id, _, ok := p.addrTest(ifi); ok {
							for _, k := range keys {
								if sameValue(id, k) {
									filtered = p.InstrPos(ifi)
								}
							}
						}
					}
				}
			}
			for _, sf := range scopeFns {
				eachInstrDeep(sf, visit)
			}
			r.Decide(ranged && filtered == "", R, "iterator-visits-layer:"+layer, p.Pos(w.Pos()),
				"the slab iterator ranges over the storage's "+layer+" map itself and applies no owner filter",
				func() string {
					if !ranged {
						return "neither the slab iterator nor a helper it calls ranges over the storage's " + layer + " map: the slabs of that layer are never yielded"
					}
					return "the keys of the storage's " + layer + " map are filtered by owner at " + filtered + " before the iterator sees them: temporary-address slabs (which live only in the write set) are never yielded, so the health check misses roots and unreferenced slabs"
				}())
		}
	}
	// getAllChildReferences: a reference that does not resolve is reported as broken, a resolved one as reference
	if w := walkers[1]; w != nil {
		brokenOK, refOK := false, false
		var resolvedAppend *ssa.Call
		var resolvedSlab ssa.Value
		eachInstr(w, func(in ssa.Instruction) {
			c, ok := in.(*ssa.Call)
			if !ok {
				return
			}
			if b, ok := c.Call.Value.(*ssa.Builtin); !ok || b.Name() != "append" {
				return
			}
			if len(c.Call.Args) < 2 || !strings.Contains(c.Call.Args[1].Type().String(), "SlabID") {
				return
			}
			for _, blk := range w.Blocks {
				ifi, isIf := blk.Instrs[len(blk.Instrs)-1].(*ssa.If)
				if !isIf {
					continue
				}
				ex, isEx := canon(ifi.Cond).(*ssa.Extract)
				if !isEx || ex.Index != 1 {
					continue
				}
				rc, isC := ex.Tuple.(*ssa.Call)
				if !isC || calleeName(rc) != "Retrieve" {
					continue
				}
				if edgeDominates(blk, 1, in.Block()) && flowsToResult(w, c, 1) && !flowsToResult(w, c, 0) {
					brokenOK = true
				}
				if edgeDominates(blk, 0, in.Block()) && flowsToResult(w, c, 0) && !flowsToResult(w, c, 1) {
					refOK = true
					resolvedAppend = c
					for _, ref := range *rc.Referrers() {
						if e0, ok := ref.(*ssa.Extract); ok && e0.Index == 0 {
							resolvedSlab = e0
						}
					}
				}
			}
		})
		r.Decide(brokenOK && refOK, R, "broken-vs-resolved:"+names[1], p.Pos(w.Pos()), "unresolvable ids go to brokenReferences, resolvable ones to references", "getAllChildReferences no longer separates resolvable from broken references by the found flag of Retrieve")
		// every resolved child slab is descended into: from the point where its id is recorded, every path to the
		// next iteration or to the exit passes through ChildStorables() of that slab
		if resolvedAppend != nil && resolvedSlab != nil {
			n++
			var escape ssa.Instruction
			ab := resolvedAppend.Block()
			reachFrom(w, resolvedAppend, nil, func(y ssa.Instruction) bool {
				if escape != nil {
					return true
				}
				if c, ok := y.(ssa.CallInstruction); ok && calleeName(c) == "ChildStorables" && callRecv(c) != nil && sameValue(callRecv(c), resolvedSlab) {
					return true
				}
				if _, ok := y.(*ssa.Return); ok {
					escape = y
					return true
				}
				if y.Block() != ab && y.Block().Dominates(ab) {
					escape = y // back at a loop head: the next reference is processed without having descended
					return true
				}
				return false
			})
			r.Decide(escape == nil, R, "resolved-child-descended:"+names[1], p.InstrPos(resolvedAppend), "the children of every resolved slab are queued on every path", "a resolved child slab can be recorded without queueing its own children: references below it (and broken references below it) are not reported")
		}
	}
	// CheckStorageHealth predicates: each failure mode of the property is tested and reported
	if h := walkers[2]; h != nil {
		type pred struct {
			name string
			cond func(v ssa.Value) bool
		}
		isLookupOK := func(v ssa.Value, mapName string) bool {
			ex, ok := v.(*ssa.Extract)
			if !ok || ex.Index != 1 {
				return false
			}
			lk, ok := ex.Tuple.(*ssa.Lookup)
			if !ok || !lk.CommaOk {
				return false
			}
			u, ok := lk.X.(*ssa.UnOp)
			if ok {
				if al, ok := u.X.(*ssa.Alloc); ok {
					return al.Comment == mapName
				}
			}
			_, isPrm := lk.X.(*ssa.Parameter)
			if _, ok := lk.X.(*ssa.MakeMap); ok || isPrm {
				// register-allocated local map (or the same map handed to a helper): identify by key/value types SlabID -> SlabID
				if mt, ok := lk.X.Type().Underlying().(*types.Map); ok {
					return typeName(mt.Key()) == "SlabID" && typeName(mt.Elem()) == "SlabID"
				}
			}
			return false
		}
		preds := []pred{
			{"two-parents", func(v ssa.Value) bool { return isLookupOK(v, "parentOf") }},
			{"owner-mismatch", func(v ssa.Value) bool {
				bo, ok := v.(*ssa.BinOp)
				if !ok || (bo.Op != token.NEQ && bo.Op != token.EQL) || typeName(bo.X.Type()) != "Address" || typeName(bo.Y.Type()) != "Address" {
					return false
				}
				// the two addresses must belong to two different slabs (child vs parent)
				src := func(x ssa.Value) ssa.Value {
					x = canon(x)
					if fr, ok := asLoadedField(x); ok {
						x = canon(fr.Base)
					}
					if c, ok := x.(*ssa.Call); ok && calleeName(c) == "SlabID" {
						return canon(callRecv(c))
					}
					return x
				}
				return !sameValue(src(bo.X), src(bo.Y))
			}},
			{"missing-slab", func(v ssa.Value) bool {
				ex, ok := v.(*ssa.Extract)
				if !ok || ex.Index != 1 {
					return false
				}
				c, ok := ex.Tuple.(*ssa.Call)
				return ok && calleeName(c) == "Retrieve"
			}},
			{"root-count", func(v ssa.Value) bool {
				bo, ok := v.(*ssa.BinOp)
				if !ok || (bo.Op != token.NEQ && bo.Op != token.EQL) {
					return false
				}
				isParam := func(x ssa.Value) bool {
					prm, ok := canon(x).(*ssa.Parameter)
					return ok && typeName(prm.Type()) == "" && prm.Type().String() == "int"
				}
				return isParam(bo.X) || isParam(bo.Y)
			}},
			{"unreachable-slab", func(v ssa.Value) bool {
				bo, ok := v.(*ssa.BinOp)
				if !ok || bo.Op != token.NEQ {
					return false
				}
				isLen := func(x ssa.Value) bool {
					c, ok := x.(*ssa.Call)
					if !ok {
						return false
					}
					b, ok := c.Call.Value.(*ssa.Builtin)
					return ok && b.Name() == "len"
				}
				return isLen(bo.X) && isLen(bo.Y)
			}},
		}
		for _, pr := range preds {
			found := false
			if pr.name == "two-parents" {
				// the hit edge of the parentOf lookup must lead straight to an error return
				for _, hf := range append([]*ssa.Function{h}, healthHelpers(p, h)...) {
					for _, blk := range hf.Blocks {
						ifi, ok := blk.Instrs[len(blk.Instrs)-1].(*ssa.If)
						if !ok || !pr.cond(canon(ifi.Cond)) {
							continue
						}
						hit := blk.Succs[0]
						if ret, ok := hit.Instrs[len(hit.Instrs)-1].(*ssa.Return); ok {
							if c, _ := classifyReturn(ret); c == retError {
								found = true
							}
						}
					}
				}
				n++
				r.Decide(found, R, "health-predicate:"+pr.name, p.Pos(h.Pos()), "a second reference to the same slab leads straight to an error return", "CheckStorageHealth no longer fails when a slab is referenced from two places")
				continue
			}
			for _, ret := range returnsOf(h) {
				if c, _ := classifyReturn(ret); c != retError {
					continue
				}
				if controlDependsOnValue(h, ret.Block(), pr.cond) {
					found = true
				}
			}
			// ... or of a private helper whose error the check propagates
			for _, g := range healthHelpers(p, h) {
				for _, ret := range returnsOf(g) {
					if c, _ := classifyReturn(ret); c == retError && controlDependsOnValue(g, ret.Block(), pr.cond) {
						found = true
					}
				}
			}
			n++
			r.Decide(found, R, "health-predicate:"+pr.name, p.Pos(h.Pos()), "an error return is control dependent on this predicate", "CheckStorageHealth no longer fails on this condition ("+pr.name+"): unhealthy storages of that kind would be accepted")
		}
		var refMap ssa.Value
		var scanFn *ssa.Function
		recordRef := func(in ssa.Instruction) {
			mu, ok := in.(*ssa.MapUpdate)
			if !ok {
				return
			}
			k := canon(mu.Key)
			for depth := 0; depth < 4; depth++ {
				if typeName(k.Type()) == "SlabIDStorable" {
					refMap = canon(mu.Map)
					// recorded by a helper into a map it was handed: name the caller's map
					if prm, isPrm := refMap.(*ssa.Parameter); isPrm && scanFn != h {
						refMap = nil
						for i, q := range scanFn.Params {
							if q != prm {
								continue
							}
							eachInstr(h, func(y ssa.Instruction) {
								if c, ok := y.(*ssa.Call); ok && c.Call.StaticCallee() == scanFn && i < len(c.Call.Args) {
									refMap = canon(c.Call.Args[i])
								}
							})
						}
					}
					return
				}
				switch x := k.(type) {
				case *ssa.Convert:
					k = canon(x.X)
				case *ssa.ChangeType:
					k = canon(x.X)
				default:
					depth = 4
				}
			}
		}
		for _, hf := range append([]*ssa.Function{h}, healthHelpers(p, h)...) {
			if refMap == nil {
				scanFn = hf
				eachInstr(hf, recordRef)
			}
		}
		// every (child, parent) edge is owner-checked: in the climb from a childless slab towards its root, once the
		// parent of the current slab was found, no path leaves the iteration (next iteration, break, return success)
		// without passing the owner comparison - a parent that was already visited through a sibling included
		n++
		{
			var foundEdge *ssa.BasicBlock
			var lookupBlk *ssa.BasicBlock
			for _, blk := range h.Blocks {
				ifi, ok := blk.Instrs[len(blk.Instrs)-1].(*ssa.If)
				if !ok {
					continue
				}
				ex, ok := canon(ifi.Cond).(*ssa.Extract)
				if !ok {
					// `for parent, found := m[id]; found; parent, found = m[id]`: the flag tested in the header is a phi of
					// the found results of the same lookup written twice
					if ph, isPhi := canon(ifi.Cond).(*ssa.Phi); isPhi {
						var first *ssa.Extract
						all := len(ph.Edges) > 0
						for _, e := range ph.Edges {
							ex2, ok2 := canon(e).(*ssa.Extract)
							if !ok2 || ex2.Index != 1 {
								all = false
								break
							}
							lk2, ok2 := ex2.Tuple.(*ssa.Lookup)
							if !ok2 || !lk2.CommaOk || (refMap != nil && canon(lk2.X) != refMap) {
								all = false
								break
							}
							if first == nil {
								first = ex2
							}
						}
						if all && first != nil {
							ex, ok = first, true
						}
					}
				}
				if !ok || ex.Index != 1 {
					continue
				}
				lk, ok := ex.Tuple.(*ssa.Lookup)
				if !ok || !lk.CommaOk {
					continue
				}
				// the parent lookup of the climb: key is the loop-carried id, not a SlabIDStorable conversion, and the
				// lookup sits in a loop whose miss edge records a root
				if typeName(lk.Index.Type()) != "SlabID" || loopHeadOf(blk) == nil || refMap == nil || canon(lk.X) != refMap {
					continue
				}
				fromStorable := false
				for k, depth := canon(lk.Index), 0; depth < 4; depth++ {
					if typeName(k.Type()) == "SlabIDStorable" {
						fromStorable = true
						break
					}
					switch x := k.(type) {
					case *ssa.Convert:
						k = canon(x.X)
					case *ssa.ChangeType:
						k = canon(x.X)
					default:
						depth = 4
					}
				}
				if fromStorable {
					continue // the two-parents test of the scan, not the climb
				}
				// the found edge is succ 0 (cond is `found`), possibly negated
				foundEdge, lookupBlk = blk.Succs[0], blk
				if u, isNot := ifi.Cond.(*ssa.UnOp); isNot && u.Op == token.NOT {
					foundEdge = blk.Succs[1]
				}
				// prefer the lookup whose miss edge stores into a map (roots)
				missHasMapUpdate := false
				miss := blk.Succs[1]
				if foundEdge == blk.Succs[1] {
					miss = blk.Succs[0]
				}
				for _, y := range miss.Instrs {
					if _, ok := y.(*ssa.MapUpdate); ok {
						missHasMapUpdate = true
					}
				}
				if missHasMapUpdate {
					break
				}
				foundEdge = nil
			}
			ownerPred := preds[1].cond
			good := foundEdge != nil
			var escape ssa.Instruction
			if foundEdge != nil {
				head := loopHeadOf(lookupBlk)
				seen := map[*ssa.BasicBlock]bool{}
				var walk func(b *ssa.BasicBlock)
				walk = func(b *ssa.BasicBlock) {
					if seen[b] || escape != nil {
						return
					}
					seen[b] = true
					last := b.Instrs[len(b.Instrs)-1]
					if b == head {
						escape = last // next iteration without the comparison
						return
					}
					if ifi, ok := last.(*ssa.If); ok && ownerPred(canon(ifi.Cond)) {
						return // owner comparison reached
					}
					// a helper that compares the owners on every one of its success paths
					viaHelper := false
					for _, y := range b.Instrs {
						c, ok := y.(ssa.CallInstruction)
						if !ok {
							continue
						}
						for _, g := range healthHelpers(p, h) {
							if staticCallee(c) == g && successReturnAvoiding(g, nil, func(z ssa.Instruction) bool {
								i2, ok := z.(*ssa.If)
								return ok && ownerPred(canon(i2.Cond))
							}) == nil {
								viaHelper = true
							}
						}
					}
					if viaHelper {
						return
					}
					if ret, ok := last.(*ssa.Return); ok {
						if c, _ := classifyReturn(ret); c != retError {
							escape = ret
						}
						return
					}
					if !blockInLoop(b, head) {
						escape = last // left the climb (break) without the comparison
						return
					}
					for _, sc := range b.Succs {
						walk(sc)
					}
				}
				walk(foundEdge)
				good = escape == nil
			}
			pos := p.Pos(h.Pos())
			if escape != nil {
				pos = p.InstrPos(escape)
			}
			r.Decide(good, R, "health-predicate:every-edge-owner-checked", pos, "once a slab's parent is found the climb always compares their owners before moving on", "the climb can move on (or stop) after finding a slab's parent without comparing their owners: a slab owned by another address is accepted when its parent was already visited through a sibling")
		}
		// root count: decided by case analysis - expected in {-1,0,1,2}, number of roots in {0,1,2}; from the first
		// comparison that involves the expected-count parameter, an error return must be reached exactly when
		// expected >= 0 and the number of roots differs from it (a negative count asks for no comparison).
		{
			var prm *ssa.Parameter
			for _, q := range h.Params {
				if q.Type().String() == "int" {
					prm = q
				}
			}
			var startBlk *ssa.BasicBlock
			if prm != nil {
				for _, blk := range h.Blocks {
					ifi, ok := blk.Instrs[len(blk.Instrs)-1].(*ssa.If)
					if !ok {
						continue
					}
					if bo, ok := ifi.Cond.(*ssa.BinOp); ok && (canonConv(bo.X) == ssa.Value(prm) || canonConv(bo.Y) == ssa.Value(prm)) {
						if startBlk == nil || blk.Dominates(startBlk) {
							startBlk = blk
						}
					}
				}
			}
			n++
			// the comparison may live in a private helper that is handed the expected count and the number found
			var helperCall *ssa.Call
			if startBlk == nil && prm != nil {
				eachInstr(h, func(in ssa.Instruction) {
					c, ok := in.(*ssa.Call)
					if !ok || helperCall != nil {
						return
					}
					g := c.Call.StaticCallee()
					if g == nil || g.Pkg != p.RootSSA || len(g.Blocks) == 0 || !isErrorType(c.Type()) {
						return
					}
					for _, a := range c.Call.Args {
						if canonConv(a) == ssa.Value(prm) {
							helperCall = c
						}
					}
				})
			}
			if helperCall != nil {
				g := helperCall.Call.StaticCallee()
				var gprm, glen *ssa.Parameter
				for i, a := range helperCall.Call.Args {
					if i >= len(g.Params) {
						continue
					}
					if canonConv(a) == ssa.Value(prm) {
						gprm = g.Params[i]
					} else if _, isLen := isLenOf(a); isLen {
						glen = g.Params[i]
					}
				}
				bad := ""
				if gprm == nil || glen == nil {
					bad = "the helper is not handed both the expected count and the number of roots found"
				}
				for ev := -1; ev <= 2 && bad == ""; ev++ {
					for lv := 0; lv <= 2 && bad == ""; lv++ {
						val := func(v ssa.Value) (int, bool) {
							v = canonConv(v)
							switch {
							case v == ssa.Value(gprm):
								return ev, true
							case v == ssa.Value(glen):
								return lv, true
							}
							if k, ok := constInt(v); ok {
								return int(k), true
							}
							return 0, false
						}
						succ, fail := orderReachFrom(g.Blocks[0], val)
						want := ev >= 0 && lv != ev
						if want && succ {
							bad = fmt.Sprintf("with %d expected and %d actual roots the helper can answer nil", ev, lv)
						}
						if !want && fail {
							bad = fmt.Sprintf("with %d expected and %d actual roots the helper can answer an error", ev, lv)
						}
					}
				}
				// the helper's verdict is returned
				if bad == "" {
					if okS, why := p.errorSurfaces(h, helperCall); !okS {
						bad = "the helper's error is not returned: " + why
					}
				}
				r.Decide(bad == "", R, "health-predicate:root-count-exact", p.InstrPos(helperCall), "the helper fails exactly when a non-negative expected root count differs from the number of roots found, and its error is returned", "the root-count predicate is not exact: "+bad)
				n++
				byp := successReturnAvoiding(h, nil, func(z ssa.Instruction) bool { return z == ssa.Instruction(helperCall) })
				pos2 := p.Pos(h.Pos())
				if byp != nil {
					pos2 = p.InstrPos(byp)
				}
				r.Decide(byp == nil, R, "health-predicate:root-count-not-bypassed", pos2, "every success return passes the comparison with the expected number of roots", "a success return of the check is reachable without passing the comparison with the expected number of roots: for the storages that take this way out any expectation is accepted")
			} else if startBlk == nil {
				r.Bad(R, "health-predicate:root-count-exact", p.Pos(h.Pos()), "no comparison involves the expected number of roots: the root count is never checked")
			} else {
				bad := ""
				for ev := -1; ev <= 2 && bad == ""; ev++ {
					for lv := 0; lv <= 2 && bad == ""; lv++ {
						val := func(v ssa.Value) (int, bool) {
							v = canonConv(v)
							if v == ssa.Value(prm) {
								return ev, true
							}
							if k, ok := constInt(v); ok {
								return int(k), true
							}
							if c, ok := v.(*ssa.Call); ok {
								if bi, ok := c.Call.Value.(*ssa.Builtin); ok && bi.Name() == "len" {
									return lv, true
								}
							}
							return 0, false
						}
						succ, fail := orderReachFrom(startBlk, val)
						want := ev >= 0 && lv != ev
						if want && succ {
							bad = fmt.Sprintf("with %d expected and %d actual roots the check can succeed", ev, lv)
						}
						if !want && fail {
							bad = fmt.Sprintf("with %d expected and %d actual roots the check can fail", ev, lv)
						}
					}
				}
				r.Decide(bad == "", R, "health-predicate:root-count-exact", p.InstrPos(startBlk.Instrs[len(startBlk.Instrs)-1]),
					"the check fails exactly when a non-negative expected root count differs from the number of roots found",
					"the root-count predicate is not exact: "+bad)
				// ... and no success return leaves the check before that comparison (a fast path for "simple" storages
				// that returns the roots it found would accept any expectation)
				n++
				byp := successReturnAvoiding(h, nil, func(z ssa.Instruction) bool { return z.Block() == startBlk })
				pos2 := p.Pos(h.Pos())
				if byp != nil {
					pos2 = p.InstrPos(byp)
				}
				r.Decide(byp == nil, R, "health-predicate:root-count-not-bypassed", pos2, "every success return passes the comparison with the expected number of roots", "a success return of the check is reachable without passing the comparison with the expected number of roots: for the storages that take this way out any expectation is accepted")
			}
		}
		// every reference resolves: the map that records the referenced ids (key converted from a SlabIDStorable)
		// is ranged over, and each key is looked up among the slabs of the storage with an error on the miss edge.
		// (The climb from leaves to roots only resolves ids that lie on such a path: a missing childless slab does not.)
		n++
		resolved := false
		bypassed := false
		if refMap != nil {
			eachInstr(h, func(in ssa.Instruction) {
				rg, ok := in.(*ssa.Range)
				if !ok || canon(rg.X) != refMap {
					return
				}
				// keys produced by this range
				keys := map[ssa.Value]bool{}
				for _, nx := range *rg.Referrers() {
					nxt, ok := nx.(*ssa.Next)
					if !ok {
						continue
					}
					for _, e := range *nxt.Referrers() {
						if ex, ok := e.(*ssa.Extract); ok && ex.Index == 1 {
							keys[ex] = true
						}
					}
				}
				isKey := func(v ssa.Value) bool { return keys[v] || keys[canon(v)] }
				for _, ret := range returnsOf(h) {
					if c, _ := classifyReturn(ret); c != retError {
						continue
					}
					if controlDependsOnValue(h, ret.Block(), func(v ssa.Value) bool {
						ex, ok := v.(*ssa.Extract)
						if !ok || ex.Index != 1 {
							return false
						}
						switch t := ex.Tuple.(type) {
						case *ssa.Lookup:
							return t.CommaOk && isKey(t.Index)
						case *ssa.Call:
							return calleeName(t) == "Retrieve" && len(callArgs(t)) > 0 && isKey(callArgs(t)[0])
						}
						return false
					}) {
						// ... and no success exit of the check bypasses this pass (e.g. a guard on the kind of storage)
						if successReturnAvoiding(h, nil, func(z ssa.Instruction) bool { return z == ssa.Instruction(rg) }) == nil {
							resolved = true
						} else {
							bypassed = true
						}
					}
				}
			})
		}
		if bypassed && !resolved {
			n++
			r.Bad(R, "health-predicate:every-reference-resolves:unconditional", p.Pos(h.Pos()), "the pass that resolves every recorded reference can be bypassed on a success path (it is guarded by a condition, for example on the kind of storage): on that path a deleted referenced slab is accepted")
		}
		r.Decide(resolved, R, "health-predicate:every-reference-resolves", p.Pos(h.Pos()), "every recorded reference is looked up among the storage's slabs and a miss is an error", "a referenced slab that is missing from storage is only noticed if it lies on a path from a childless slab to a root: deleting a childless referenced slab (a leaf data slab, a large-value slab) leaves a dangling reference that the health check accepts")
	}
	r.Floor(R, "walkers and predicates", 9, n)
}

// X4 iterator agreement: sibling Next* methods advance the same cursor fields.
func ruleX4(p *Prog, r *Report) {
	const R = "X4"
	n := 0
	for _, nt := range p.rootNamedTypes() {
		var ms []*ssa.Function
		for _, nm := range []string{"Next", "NextKey", "NextValue"} {
			if f := p.Method(nt.Obj().Name(), nm); f != nil && recvNamed(f) == nt {
				ms = append(ms, f)
			}
		}
		if len(ms) < 2 {
			continue
		}
		n++
		sets := map[string][]string{}
		for _, f := range ms {
			w := effectSummary(p.FineEffects(f), func(e Effect) bool {
				return e.Kind == "field" && strings.HasPrefix(e.What, nt.Obj().Name()+".")
			})
			sets[f.Name()] = w
		}
		ref := strings.Join(sets[ms[0].Name()], " ")
		same := true
		for _, f := range ms[1:] {
			if strings.Join(sets[f.Name()], " ") != ref {
				same = false
			}
		}
		desc := ""
		for _, f := range ms {
			desc += f.Name() + "={" + strings.Join(sets[f.Name()], " ") + "} "
		}
		r.Decide(same, R, "cursor-agreement:"+nt.Obj().Name(), p.Pos(ms[0].Pos()), "all variants advance the same cursor state: "+desc,
			"Next/NextKey/NextValue do not write the same cursor fields ("+desc+"): one flavour would skip or repeat elements")
	}
	r.Floor(R, "iterator types with sibling Next methods", 2, n)
}

// copy pairs
var copyPairs = [][2]string{{"CanCopyNonRefSimple", "CopyNonRefSimple"}, {"canCopyWithoutSlabID", "copyWithNewSlabID"}, {"canCopyNonRefSimple", "copyNonRefSimple"}}

// recvFieldsInConds: receiver fields that appear in the conditions controlling block b.
func recvFieldsInConds(f *ssa.Function, b *ssa.BasicBlock, skipCall func(*ssa.Call) bool) []string {
	cd := controlDeps(f)
	set := map[string]bool{}
	seen := map[*ssa.BasicBlock]bool{}
	var rec func(x *ssa.BasicBlock)
	rec = func(x *ssa.BasicBlock) {
		if seen[x] {
			return
		}
		seen[x] = true
		for a := range cd[x] {
			ifi := a.Instrs[len(a.Instrs)-1].(*ssa.If)
			if _, _, isErr := errTestOf(ifi); isErr {
				continue
			}
			delegated := false
			sliceContains(ifi.Cond, func(v ssa.Value) bool {
				if c, ok := v.(*ssa.Call); ok && skipCall(c) {
					delegated = true
				}
				return false
			}, 0, map[ssa.Value]bool{})
			if !delegated {
				sliceContains(ifi.Cond, func(v ssa.Value) bool {
					if fr, ok := asLoadedField(v); ok && len(f.Params) > 0 && sameValue(fr.Base, f.Params[0]) {
						set[fr.Field] = true
					}
					return false
				}, 0, map[ssa.Value]bool{})
			}
			rec(a)
		}
	}
	rec(b)
	var out []string
	for k := range set {
		out = append(out, k)
	}
	sort.Strings(out)
	return out
}

// X5 can-copy / copy agreement.
func ruleX5(p *Prog, r *Report) {
	const R = "X5"
	n := 0
	isCanName := func(s string) bool {
		for _, pr := range copyPairs {
			if s == pr[0] {
				return true
			}
		}
		return false
	}
	for _, nt := range p.rootNamedTypes() {
		for _, pr := range copyPairs {
			can, cp := p.Method(nt.Obj().Name(), pr[0]), p.Method(nt.Obj().Name(), pr[1])
			if can == nil || cp == nil || recvNamed(can) != nt || recvNamed(cp) != nt || isHandleType(nt.Obj().Name()) {
				continue
			}
			n++
			cons := "can-vs-copy:" + nt.Obj().Name() + "." + pr[1]
			// constants
			canVals := map[string]bool{}
			var canFalseFields []string
			for _, ret := range returnsOf(can) {
				v := canon(ret.Results[0])
				if c, ok := v.(*ssa.Const); ok {
					canVals[c.Value.String()] = true
					if c.Value.String() == "false" && !directlyControlledByCall(can, ret.Block(), func(c *ssa.Call) bool { return isCanName(calleeName(c)) }) {
						canFalseFields = append(canFalseFields, recvFieldsInConds(can, ret.Block(), func(c *ssa.Call) bool { return isCanName(calleeName(c)) })...)
					}
				} else {
					canVals["dyn"] = true
					// short-circuit forms: a phi with constant-false edges; the refusing condition is the branch that feeds them
					if phi, ok := v.(*ssa.Phi); ok {
						for i, e := range phi.Edges {
							if c, ok := e.(*ssa.Const); ok && c.Value != nil && c.Value.String() == "false" {
								pred := phi.Block().Preds[i]
								if ifi, ok := pred.Instrs[len(pred.Instrs)-1].(*ssa.If); ok {
									delegated := false
									sliceContains(ifi.Cond, func(x ssa.Value) bool {
										if c, ok := x.(*ssa.Call); ok && isCanName(calleeName(c)) {
											delegated = true
										}
										return false
									}, 0, map[ssa.Value]bool{})
									if delegated {
										continue
									}
									sliceContains(ifi.Cond, func(x ssa.Value) bool {
										if fr, ok := asLoadedField(x); ok && sameValue(fr.Base, can.Params[0]) {
											canFalseFields = append(canFalseFields, fr.Field)
										}
										return false
									}, 0, map[ssa.Value]bool{})
								}
								canFalseFields = append(canFalseFields, recvFieldsInConds(can, pred, func(c *ssa.Call) bool { return isCanName(calleeName(c)) })...)
							}
						}
					}
				}
			}
			allErr, anyConstructed := true, false
			var copyErrFields []string
			for _, ret := range returnsOf(cp) {
				cl, ev := classifyReturn(ret)
				if cl != retError {
					allErr = false
					continue
				}
				// constructed here vs derived from a callee's error
				derived := false
				sliceContains(ev, func(v ssa.Value) bool {
					if ex, ok := v.(*ssa.Extract); ok && isErrorType(ex.Type()) {
						derived = true
					}
					if c, ok := v.(*ssa.Call); ok && isErrorType(c.Type()) && !isErrorConstructorCall(c) && (c.Call.StaticCallee() == nil || !strings.HasPrefix(c.Call.StaticCallee().String(), "fmt.")) {
						derived = true
					}
					return false
				}, 0, map[ssa.Value]bool{})
				if !derived {
					anyConstructed = true
					copyErrFields = append(copyErrFields, recvFieldsInConds(cp, ret.Block(), func(c *ssa.Call) bool { return false })...)
				}
			}
			sort.Strings(canFalseFields)
			sort.Strings(copyErrFields)
			canFalseFields, copyErrFields = uniq(canFalseFields), uniq(copyErrFields)
			constFalse := len(canVals) == 1 && canVals["false"]
			// delegation agreement: every part whose own copy the operation calls (and whose failure it propagates)
			// is asked by the predicate whether it can be copied
			delegates := func(fn *ssa.Function, names func(string) bool) []string {
				set := map[string]bool{}
				eachInstr(fn, func(in ssa.Instruction) {
					c, ok := in.(ssa.CallInstruction)
					if !ok || !names(calleeName(c)) {
						return
					}
					rv := callRecv(c)
					if rv == nil && len(c.Common().Args) > 0 {
						rv = c.Common().Args[0]
					}
					if rv == nil {
						return
					}
					set[recvFieldRoot(fn, rv, 0)] = true
				})
				var out []string
				for k := range set {
					out = append(out, k)
				}
				sort.Strings(out)
				return out
			}
			isCopyName := func(s string) bool {
				for _, pr := range copyPairs {
					if s == pr[1] {
						return true
					}
				}
				return false
			}
			cpDel, canDel := delegates(cp, isCopyName), delegates(can, isCanName)
			var notAsked []string
			for _, d := range cpDel {
				found := false
				for _, e := range canDel {
					if d == e {
						found = true
					}
				}
				if !found {
					notAsked = append(notAsked, d)
				}
			}
			switch {
			case !constFalse && !allErr && len(notAsked) > 0:
				r.Bad(R, cons, p.Pos(can.Pos()), fmt.Sprintf("%s copies {%s} through their own copy operation (which can refuse) but %s does not ask them: the copy would be offered and then fail", pr[1], strings.Join(notAsked, ","), pr[0]))
			case constFalse != allErr:
				r.Bad(R, cons, p.Pos(cp.Pos()), fmt.Sprintf("%s is constant false = %v but %s fails on every path = %v: 'copy is offered exactly when it succeeds' is broken for this type", pr[0], constFalse, pr[1], allErr))
			case constFalse:
				r.Ok(R, cons, p.Pos(cp.Pos()), "never copyable and copy always fails")
			case len(canVals) == 1 && canVals["true"] && anyConstructed:
				r.Bad(R, cons, p.Pos(cp.Pos()), pr[0]+" is constant true but "+pr[1]+" can fail with its own error")
			case strings.Join(canFalseFields, ",") != strings.Join(copyErrFields, ","):
				r.Bad(R, cons, p.Pos(cp.Pos()), fmt.Sprintf("%s refuses on receiver state {%s} but %s fails on {%s}: the predicate and the operation disagree", pr[0], strings.Join(canFalseFields, ","), pr[1], strings.Join(copyErrFields, ",")))
			default:
				r.Ok(R, cons, p.Pos(cp.Pos()), fmt.Sprintf("predicate and operation refuse on the same receiver state {%s}; remaining refusals are delegated to the elements' own pair", strings.Join(canFalseFields, ",")))
			}
		}
	}
	r.Floor(R, "can/copy pairs", 10, n)
}

// X6 copy independence: a copy shares no slice / map / pointer with its source.
func ruleX6(p *Prog, r *Report) {
	const R = "X6"
	n := 0
	for _, top := range p.TopFuncs() {
		isCopy := false
		for _, pr := range copyPairs {
			if top.Name() == pr[1] {
				isCopy = true
			}
		}
		if !isCopy || len(top.Params) == 0 || isHandleType(recvName(top)) {
			continue
		}
		recv := top.Params[0]
		eachInstr(top, func(in ssa.Instruction) {
			st, ok := in.(*ssa.Store)
			if !ok {
				return
			}
			fr, ok := asFieldAddr(st.Addr)
			if !ok || rootOfAddr(st.Addr) != "fresh" {
				return
			}
			t := st.Val.Type().Underlying()
			switch t.(type) {
			case *types.Slice, *types.Map, *types.Pointer:
			default:
				return
			}
			n++
			cons := fmt.Sprintf("copied-field:%s:%s", p.Name(top), fr.Field)
			v := canon(st.Val)
			shared := false
			if lf, ok := asLoadedField(v); ok {
				// loaded straight from the source (receiver-rooted)
				if rootOfAddr(lf.Base) != "fresh" || sameValue(lf.Base, recv) {
					shared = true
				}
			}
			if sl, ok := v.(*ssa.Slice); ok {
				if lf, ok := asLoadedField(sl.X); ok && rootOfAddr(lf.Base) != "fresh" {
					shared = true
				}
			}
			r.Decide(!shared, R, cons, p.InstrPos(in), "field of the copy receives a fresh or cloned value", "the copy's field aliases the source's slice/map/pointer: mutating one container would change the other")
		})
	}
	// entries of a fresh list built in a copy routine: an entry of interface / pointer type is the result of a copy
	// call, never the source's own entry (a client storable may be a pointer to mutable state)
	nE := 0
	for _, top := range p.TopFuncs() {
		isCopy := false
		for _, pr := range copyPairs {
			if top.Name() == pr[1] {
				isCopy = true
			}
		}
		if !isCopy || len(top.Params) == 0 || isHandleType(recvName(top)) || p.IsTestFile(top.Pos()) {
			continue
		}
		eachInstr(top, func(in ssa.Instruction) {
			st, ok := in.(*ssa.Store)
			if !ok {
				return
			}
			ia, ok := st.Addr.(*ssa.IndexAddr)
			if !ok {
				return
			}
			if _, fresh := canon(ia.X).(*ssa.MakeSlice); !fresh {
				return
			}
			switch st.Val.Type().Underlying().(type) {
			case *types.Interface, *types.Pointer:
			default:
				return
			}
			nE++
			v := canon(st.Val)
			shared := false
			// a range value / indexed load of a list that is not fresh
			if ld, ok := v.(*ssa.UnOp); ok && ld.Op == token.MUL {
				if ia2, ok := ld.X.(*ssa.IndexAddr); ok {
					if _, fresh := canon(ia2.X).(*ssa.MakeSlice); !fresh {
						shared = true
					}
				}
			}
			r.Decide(!shared, R, "copied-entry:"+p.Name(top), p.InstrPos(in), "the entry of the copy's list is the result of a copy call", "an entry of the copy's list is the source's own entry (an interface or pointer value): a client storable that points to mutable state is then shared by source and copy, and mutating one changes the other")
		})
	}
	r.Floor(R, "reference-typed fields assigned in copy routines", 4, n)
	r.Floor(R, "list entries assigned in copy routines", 2, nE)
}

// directlyControlledByCall: one of the immediate controlling conditions of b contains a call matching pred.
func directlyControlledByCall(f *ssa.Function, b *ssa.BasicBlock, pred func(*ssa.Call) bool) bool {
	cd := controlDeps(f)
	hit := false
	for a := range cd[b] {
		ifi := a.Instrs[len(a.Instrs)-1].(*ssa.If)
		sliceContains(ifi.Cond, func(v ssa.Value) bool {
			if c, ok := v.(*ssa.Call); ok && pred(c) {
				hit = true
			}
			return false
		}, 0, map[ssa.Value]bool{})
	}
	return hit
}

// flowsToResult: value v reaches result position idx of some return of f through phis and append chains.
func flowsToResult(f *ssa.Function, v ssa.Value, idx int) bool {
	seen := map[ssa.Value]bool{}
	var rec func(x ssa.Value) bool
	rec = func(x ssa.Value) bool {
		x = canon(x)
		if seen[x] {
			return false
		}
		seen[x] = true
		if x == v {
			return true
		}
		switch y := x.(type) {
		case *ssa.Phi:
			for _, e := range y.Edges {
				if rec(e) {
					return true
				}
			}
		case *ssa.Call:
			if b, ok := y.Call.Value.(*ssa.Builtin); ok && b.Name() == "append" {
				return rec(y.Call.Args[0])
			}
		case *ssa.UnOp:
			if al, ok := y.X.(*ssa.Alloc); ok && y.Op == token.MUL {
				for _, ref := range *al.Referrers() {
					if st, ok := ref.(*ssa.Store); ok && st.Addr == ssa.Value(al) && rec(st.Val) {
						return true
					}
				}
			}
		}
		return false
	}
	for _, ret := range returnsOf(f) {
		if idx < len(ret.Results) && rec(ret.Results[idx]) {
			return true
		}
	}
	return false
}

// X7 decoded objects own their storage: the inlined extra data section of a slab is shared by every
// inlined container decoded from that slab; no slice, map or pointer reachable from it by loads alone
// may be stored into a freshly built slab, element list or extra data (a clone made by a call is fine).
func ruleX7(p *Prog, r *Report) {
	const R = "X7"
	scope, _ := p.decodeScope()
	n := 0
	isSharedParam := func(v ssa.Value) bool {
		prm, ok := v.(*ssa.Parameter)
		if !ok {
			return false
		}
		sl, ok := prm.Type().Underlying().(*types.Slice)
		if !ok {
			return false
		}
		nt := namedOf(sl.Elem())
		return nt != nil && nt.Obj().Name() == "ExtraData"
	}
	var derived func(v ssa.Value, depth int) bool
	derived = func(v ssa.Value, depth int) bool {
		if depth > 12 {
			return false
		}
		v = canon(v)
		if isSharedParam(v) {
			return true
		}
		switch x := v.(type) {
		case *ssa.UnOp:
			if x.Op == token.MUL {
				return derived(x.X, depth+1)
			}
		case *ssa.FieldAddr:
			return derived(x.X, depth+1)
		case *ssa.Field:
			return derived(x.X, depth+1)
		case *ssa.IndexAddr:
			return derived(x.X, depth+1)
		case *ssa.Index:
			return derived(x.X, depth+1)
		case *ssa.TypeAssert:
			return derived(x.X, depth+1)
		case *ssa.Extract:
			if ta, ok := x.Tuple.(*ssa.TypeAssert); ok && x.Index == 0 {
				return derived(ta.X, depth+1)
			}
		case *ssa.Slice:
			return derived(x.X, depth+1)
		case *ssa.Phi:
			for _, e := range x.Edges {
				if derived(e, depth+1) {
					return true
				}
			}
		case *ssa.Call:
			// library helpers that hand back (a view of) their argument: slices.Clip / Grow / Insert / Delete / Compact ...,
			// append(shared, ...) - only the cloning ones (slices.Clone, slices.Concat, bytes.Clone) make a fresh copy
			if bi, ok := x.Call.Value.(*ssa.Builtin); ok && bi.Name() == "append" && len(x.Call.Args) > 0 {
				return derived(x.Call.Args[0], depth+1)
			}
			if g := x.Call.StaticCallee(); g != nil {
				pkg, name := "", g.Name()
				if g.Pkg != nil {
					pkg = g.Pkg.Pkg.Path()
				} else if o := g.Origin(); o != nil && o.Pkg != nil {
					pkg, name = o.Pkg.Pkg.Path(), o.Name()
				}
				if pkg == "slices" && name != "Clone" && name != "Concat" && name != "Collect" && len(x.Call.Args) > 0 {
					if _, isSlice := x.Type().Underlying().(*types.Slice); isSlice {
						return derived(x.Call.Args[0], depth+1)
					}
				}
			}
		}
		return false
	}
	for _, f := range sortedFuncs(p, scope) {
		has := false
		for _, prm := range f.Params {
			if isSharedParam(prm) {
				has = true
			}
		}
		if !has {
			continue
		}
		ord := map[string]int{}
		eachInstr(f, func(in ssa.Instruction) {
			st, ok := in.(*ssa.Store)
			if !ok {
				return
			}
			fr, ok := asFieldAddr(st.Addr)
			if !ok || rootOfAddr(st.Addr) != "fresh" {
				return
			}
			switch st.Val.Type().Underlying().(type) {
			case *types.Slice, *types.Map, *types.Pointer:
			default:
				return
			}
			n++
			key := fr.Field
			if fr.Owner != nil {
				key = fr.Owner.Obj().Name() + "." + fr.Field
			}
			ord[key]++
			cons := fmt.Sprintf("decoded-field-owned:%s:%s", p.Name(f), key)
			if ord[key] > 1 {
				cons += fmt.Sprintf("#%d", ord[key])
			}
			r.Decide(!derived(st.Val, 0), R, cons, p.InstrPos(in), "the decoded object's field receives a fresh or cloned value", "the decoded object's field aliases the slab's shared inlined extra data: every inlined container decoded from the same slab would share (and mutate) this storage")
		})
	}
	r.Floor(R, "reference-typed fields set by decoders of inlined containers", 6, n)
}

// X8 no silent skip on a family downcast: a comma-ok assertion of a closed-family interface value (a slab, an
// element, an element list) to one member either treats the other members as an error, or only adds a step for
// that member (the not-ok edge rejoins the code that follows the ok branch). An early *success* return on the
// not-ok edge silently skips the other members of the family.
func ruleX8(p *Prog, r *Report) {
	const R = "X8"
	fams := p.families()
	inFamily := func(t types.Type) (string, int) {
		nt := namedOf(t)
		if nt == nil {
			return "", 0
		}
		for _, f := range fams {
			if nt.Obj().Name() == f.name && nt.Obj().Pkg() != nil && nt.Obj().Pkg().Path() == rootPkgPath {
				return f.name, len(f.members)
			}
		}
		return "", 0
	}
	n := 0
	// explicit e.(T) expressions (type switches lower to comma-ok assertions too: those are X1's)
	explicit := map[token.Pos]bool{}
	for _, file := range p.Root.Syntax {
		ast.Inspect(file, func(nd ast.Node) bool {
			if te, ok := nd.(*ast.TypeAssertExpr); ok && te.Type != nil {
				explicit[te.Lparen] = true
			}
			return true
		})
	}
	funcs := append([]*ssa.Function(nil), p.Funcs...)
	sort.Slice(funcs, func(i, j int) bool { return p.Name(funcs[i]) < p.Name(funcs[j]) })
	for _, f := range funcs {
		if p.IsTestFile(f.Pos()) || len(f.Blocks) == 0 || !lastResultIsError(f) {
			continue // without an error result a "no" answer cannot be told from a skip
		}
		base := p.FileBase(f.Pos())
		if strings.Contains(base, "verify") || strings.Contains(base, "dump") || strings.Contains(base, "stats") || strings.Contains(base, "debug") {
			continue // diagnostic helpers: not part of the operations the properties speak about
		}
		ord := 0
		eachInstr(f, func(in ssa.Instruction) {
			ta, ok := in.(*ssa.TypeAssert)
			if !ok || !ta.CommaOk || !explicit[ta.Pos()] {
				return
			}
			fam, size := inFamily(ta.X.Type())
			if fam == "" || size < 2 {
				return
			}
			if _, isIface := ta.AssertedType.Underlying().(*types.Interface); isIface {
				return
			}
			// the ok flag must decide a branch
			var okV ssa.Value
			for _, ref := range *ta.Referrers() {
				if ex, isEx := ref.(*ssa.Extract); isEx && ex.Index == 1 {
					okV = ex
				}
			}
			if okV == nil {
				return
			}
			var branch *ssa.If
			notOkSucc := -1
			for _, b := range f.Blocks {
				ifi, isIf := b.Instrs[len(b.Instrs)-1].(*ssa.If)
				if !isIf {
					continue
				}
				c := ifi.Cond
				neg := false
				if u, isU := c.(*ssa.UnOp); isU && u.Op == token.NOT {
					c, neg = u.X, true
				}
				if canon(c) == okV || c == okV {
					branch = ifi
					if neg {
						notOkSucc = 0
					} else {
						notOkSucc = 1
					}
				}
			}
			if branch == nil {
				return
			}
			n++
			ord++
			cons := fmt.Sprintf("family-downcast:%s:%s->%s", p.Name(f), fam, typeName(ta.AssertedType))
			if ord > 1 {
				cons += fmt.Sprintf("#%d", ord)
			}
			bb := branch.Block()
			notOk, okB := bb.Succs[notOkSucc], bb.Succs[1-notOkSucc]
			// (b) the not-ok edge rejoins the ok side: its target is reachable from the ok branch
			rejoin := notOk == okB || canReachBlock(okB, notOk)
			if rejoin {
				r.Ok(R, cons, p.InstrPos(in), "the downcast only adds a step for this member; other members continue on the common path")
				return
			}
			// (a) every exit reachable on the not-ok edge before rejoining is an error / panic
			var silent ssa.Instruction
			seen := map[*ssa.BasicBlock]bool{}
			var walk func(b *ssa.BasicBlock)
			walk = func(b *ssa.BasicBlock) {
				if seen[b] || silent != nil {
					return
				}
				seen[b] = true
				if b != notOk && canReachBlock(okB, b) {
					return // rejoined
				}
				// the value is looked at again on this path (generic handling of the other members, or a further downcast)
				for _, y := range b.Instrs {
					if y == ssa.Instruction(ta) {
						continue
					}
					for _, op := range y.Operands(nil) {
						if *op != nil && (*op == ta.X || canon(*op) == canon(ta.X)) {
							if _, isDbg := y.(*ssa.DebugRef); !isDbg {
								return
							}
						}
					}
				}
				last := b.Instrs[len(b.Instrs)-1]
				switch x := last.(type) {
				case *ssa.Return:
					if c, _ := classifyReturn(x); c == retSuccess {
						silent = x
					} else if !lastResultIsError(f) {
						silent = x
					}
					return
				case *ssa.Panic:
					return
				}
				for _, s := range b.Succs {
					walk(s)
				}
			}
			walk(notOk)
			if silent == nil {
				r.Ok(R, cons, p.InstrPos(in), "a value of another member of the family is reported as an error")
			} else {
				r.Bad(R, cons, p.InstrPos(silent), "when the "+fam+" is not a "+typeName(ta.AssertedType)+" the function returns success without handling it: the other members of the family are silently skipped")
			}
		})
	}
	r.Floor(R, "comma-ok downcasts of closed-family values", 3, n)
}

// recvFieldRoot names the receiver field a value is derived from (loaded field, element of a loaded field,
// range value over it), "self" for the receiver itself, "?" otherwise.
func recvFieldRoot(fn *ssa.Function, v ssa.Value, depth int) string {
	if depth > 8 || len(fn.Params) == 0 {
		return "?"
	}
	v = canon(v)
	if v == ssa.Value(fn.Params[0]) {
		return "self"
	}
	if fr, ok := asLoadedField(v); ok && sameValue(fr.Base, fn.Params[0]) {
		return fr.Field
	}
	switch x := v.(type) {
	case *ssa.UnOp:
		return recvFieldRoot(fn, x.X, depth+1)
	case *ssa.IndexAddr:
		return recvFieldRoot(fn, x.X, depth+1)
	case *ssa.Index:
		return recvFieldRoot(fn, x.X, depth+1)
	case *ssa.FieldAddr:
		if sameValue(x.X, fn.Params[0]) {
			_, n := structFieldName(x.X.Type(), x.Field)
			return n
		}
		return recvFieldRoot(fn, x.X, depth+1)
	case *ssa.Extract:
		if nx, ok := x.Tuple.(*ssa.Next); ok {
			if rg, ok := nx.Iter.(*ssa.Range); ok {
				return recvFieldRoot(fn, rg.X, depth+1)
			}
		}
		return recvFieldRoot(fn, x.Tuple, depth+1)
	case *ssa.TypeAssert:
		return recvFieldRoot(fn, x.X, depth+1)
	case *ssa.MakeInterface:
		return recvFieldRoot(fn, x.X, depth+1)
	case *ssa.Phi:
		for _, e := range x.Edges {
			if r := recvFieldRoot(fn, e, depth+1); r != "?" {
				return r
			}
		}
	}
	return "?"
}

// blockInLoop: b belongs to the natural loop headed by head (head dominates b and b can reach head).
func blockInLoop(b, head *ssa.BasicBlock) bool {
	if head == nil || !head.Dominates(b) {
		return false
	}
	return b == head || canReachBlock(b, head)
}

// healthHelpers: unexported package-level functions that h calls and whose error result h tests and returns.
func healthHelpers(p *Prog, h *ssa.Function) []*ssa.Function {
	var out []*ssa.Function
	seen := map[*ssa.Function]bool{}
	eachInstr(h, func(in ssa.Instruction) {
		c, ok := in.(*ssa.Call)
		if !ok {
			return
		}
		g := c.Call.StaticCallee()
		if g == nil || g.Pkg != p.RootSSA || seen[g] || len(g.Blocks) == 0 || g.Object() == nil || g.Object().Exported() || !lastResultIsError(g) {
			return
		}
		// the error result is tested and returned
		var ev ssa.Value
		if isErrorType(c.Type()) {
			ev = c
		} else if c.Referrers() != nil {
			for _, ref := range *c.Referrers() {
				if ex, ok := ref.(*ssa.Extract); ok && isErrorType(ex.Type()) {
					ev = ex
				}
			}
		}
		if ev == nil {
			return
		}
		if ok, _ := p.errorSurfaces(h, ev); ok {
			seen[g] = true
			out = append(out, g)
		}
	})
	return out
}
