package main

// S7 lookup order, S8 field-write ownership, S9 observers are pure.

import (
	"fmt"
	"go/token"
	"sort"
	"strings"

	"golang.org/x/tools/go/ssa"
)

// commaOkLookupTest finds, for an If instruction, whether its condition is the
// ok flag of a comma-ok lookup in field `field` of the storage; returns the lookup.
func (p *Prog) commaOkLookupTest(ifi *ssa.If, field string) (*ssa.Lookup, bool) {
	ex, ok := canon(ifi.Cond).(*ssa.Extract)
	if !ok || ex.Index != 1 {
		return nil, false
	}
	fr, lk, ok := mapLookupOf(ex.Tuple)
	if !ok || !lk.CommaOk || !fr.is(storageT, field) {
		return nil, false
	}
	return lk, true
}

// reachesBaseRetrieve: top-level functions from which BaseStorage.Retrieve is reachable.
func (p *Prog) baseRetrieveReach() map[*ssa.Function]bool {
	direct := map[*ssa.Function]bool{}
	for _, f := range p.TopFuncs() {
		eachInstrDeep(f, func(_ *ssa.Function, in ssa.Instruction) {
			if _, ok := p.isIfaceMethodCall(in, "BaseStorage", "Retrieve"); ok {
				direct[f] = true
			}
		})
	}
	reach := map[*ssa.Function]bool{}
	for f := range direct {
		reach[f] = true
	}
	for changed := true; changed; {
		changed = false
		for _, g := range p.TopFuncs() {
			if reach[g] {
				continue
			}
			for _, c := range p.calleesDeep(g) {
				if reach[c] {
					reach[g] = true
					changed = true
					break
				}
			}
		}
	}
	return reach
}

// S7 lookup order: write set, then read cache, then ledger.
func ruleS7(p *Prog, r *Report) {
	const R = "S7"
	reach := p.baseRetrieveReach()
	n := 0
	// Every PersistentSlabStorage method that serves a lookup by id (has a SlabID
	// parameter, returns a Slab) and can reach the ledger must consult the layers in order.
	for _, f := range p.TopFuncs() {
		if recvName(f) != storageT || !reach[f] {
			continue
		}
		if !returnsSlab(f) || !hasParamOfType(f, "SlabID") {
			continue
		}
		if f.Object() != nil && !f.Object().Exported() && len(p.CallersOf(f)) > 0 && !p.consultsLayer(f, "deltas") && !p.consultsLayer(f, "cache") {
			// a private helper that only reads the ledger: every call site is checked for the cache miss above
			continue
		}
		n++
		name := p.Name(f)
		// calls that go towards the ledger: BaseStorage.Retrieve itself or callees that reach it
		eachInstr(f, func(in ssa.Instruction) {
			towards := false
			var layer string
			if _, ok := p.isIfaceMethodCall(in, "BaseStorage", "Retrieve"); ok {
				towards, layer = true, "cache"
			} else if call, ok := in.(ssa.CallInstruction); ok {
				for _, c := range p.Callees(call) {
					if reach[TopLevel(c)] && recvName(TopLevel(c)) == storageT {
						towards = true
						// the caller must have missed in the layer directly above the first one the callee consults:
						// a callee that consults the write set needs nothing, one that starts at the read cache needs a
						// write-set miss, one that goes straight to the ledger (an extracted helper) needs a cache miss
						switch {
						case p.consultsLayer(TopLevel(c), "deltas"):
							layer = ""
						case p.consultsLayer(TopLevel(c), "cache"):
							layer = "deltas"
						default:
							layer = "cache"
						}
					}
				}
			}
			if !towards {
				return
			}
			if layer == "" {
				r.Ok(R, "lookup-order:"+name+":delegates", p.InstrPos(in), "delegates to a routine that consults the write set itself")
				return
			}
			// must be dominated by the miss edge of a comma-ok lookup in `layer` with the same id
			okDom := false
			for _, b := range f.Blocks {
				ifi, ok := b.Instrs[len(b.Instrs)-1].(*ssa.If)
				if !ok {
					continue
				}
				lk, ok := p.commaOkLookupTest(ifi, layer)
				if !ok {
					continue
				}
				if edgeDominates(b, 1, in.Block()) {
					okDom = true
					// hit edge must return the looked-up slab
					p.checkHitReturns(r, R, f, b, lk, layer)
				}
			}
			r.Decide(okDom, R, "lookup-order:"+name+":"+layer+"-before-lower-layer", p.InstrPos(in),
				"lower layer consulted only on the miss edge of the "+layer+" lookup",
				"a lower storage layer is consulted without first missing in "+layer+": a pending/cached slab could be shadowed by stale ledger content")
		})
		// cache fill must be controlled by a bool parameter when one exists (cache-bypassing reads)
		eachInstr(f, func(in ssa.Instruction) {
			fw, ok := fieldWriteOf(in)
			if !ok || !fw.Ref.is(storageT, "cache") || fw.Kind != "mapupdate" {
				return
			}
			var bp *ssa.Parameter
			for _, prm := range f.Params {
				if b, ok := prm.Type().Underlying().(interface{ Kind() int }); ok {
					_ = b
				}
				if prm.Type().String() == "bool" {
					bp = prm
				}
			}
			if bp == nil {
				return
			}
			guarded := false
			for _, b := range f.Blocks {
				if ifi, ok := b.Instrs[len(b.Instrs)-1].(*ssa.If); ok && canon(ifi.Cond) == ssa.Value(bp) {
					if edgeDominates(b, 0, in.Block()) {
						guarded = true
					}
				}
			}
			r.Decide(guarded, R, "cache-fill-guard:"+name, p.InstrPos(in),
				"read-cache fill is on the true edge of the caller's cache flag",
				"read-cache fill is not controlled by the cache flag: cache-bypassing reads would populate the cache")
			// the value cached is the slab decoded from the ledger bytes under the same id
			dec := false
			if ex, ok := canon(fw.Val).(*ssa.Extract); ok && ex.Index == 0 {
				if c, ok := ex.Tuple.(*ssa.Call); ok && c.Call.StaticCallee() != nil && c.Call.StaticCallee().Name() == "DecodeSlab" {
					dec = len(c.Call.Args) > 0 && sameValue(c.Call.Args[0], fw.Key)
				} else if ok && c.Call.StaticCallee() != nil && recvName(c.Call.StaticCallee()) == storageT {
					// a private helper of the storage that returns DecodeSlab(its id parameter, ...) on success,
					// called with the same id
					g := c.Call.StaticCallee()
					for pi, prm := range g.Params {
						if typeName(prm.Type()) != "SlabID" || pi >= len(c.Call.Args) || !sameValue(c.Call.Args[pi], fw.Key) {
							continue
						}
						all := len(g.Blocks) > 0
						for _, ret := range returnsOf(g) {
							if cl, _ := classifyReturn(ret); cl == retError || len(ret.Results) == 0 {
								continue
							}
							rv := canon(ret.Results[0])
							if isNilConst(rv) {
								continue // the not-found answer
							}
							e2, ok := rv.(*ssa.Extract)
							if !ok || e2.Index != 0 {
								all = false
								continue
							}
							c2, ok := e2.Tuple.(*ssa.Call)
							if !ok || c2.Call.StaticCallee() == nil || c2.Call.StaticCallee().Name() != "DecodeSlab" || len(c2.Call.Args) == 0 || !sameValue(c2.Call.Args[0], prm) {
								all = false
							}
						}
						dec = all
					}
				}
			}
			r.Decide(dec, R, "cache-fill-value:"+name, p.InstrPos(in),
				"cache receives DecodeSlab(id, ...) under the same id", "cache is filled with something other than the slab decoded under the same id")
		})
	}
	// RetrieveIfLoaded-style methods (return Slab, no error, no bool): never touch the ledger
	for _, f := range p.TopFuncs() {
		if recvName(f) == storageT && f.Name() == "RetrieveIfLoaded" {
			n++
			r.Decide(!reach[f], R, "no-ledger:"+p.Name(f), p.Pos(f.Pos()), "cannot reach BaseStorage.Retrieve", "RetrieveIfLoaded can reach the ledger")
		}
	}
	// lookups that stay in memory (serve an id, return a Slab, cannot reach the ledger): "loaded" means in the write
	// set OR in the read cache. A nil answer may only be given after both layers missed.
	for _, f := range p.TopFuncs() {
		if recvName(f) != storageT || reach[f] || !hasParamOfType(f, "SlabID") || !returnsSlab(f) || !isExportedAPI(f) {
			continue
		}
		if p.firstLookup(f, "deltas") == nil && p.firstLookup(f, "cache") == nil {
			continue
		}
		n++
		missOK := true
		var where ssa.Instruction
		for _, ret := range returnsOf(f) {
			if len(ret.Results) == 0 || !isNilConst(canon(ret.Results[0])) {
				continue
			}
			for _, layer := range []string{"deltas", "cache"} {
				dom := false
				for _, b := range f.Blocks {
					if ifi, ok := b.Instrs[len(b.Instrs)-1].(*ssa.If); ok {
						if _, ok := p.commaOkLookupTest(ifi, layer); ok && edgeDominates(b, 1, ret.Block()) {
							dom = true
						}
					}
				}
				if !dom {
					missOK = false
					where = ret
				}
			}
		}
		pos := p.Pos(f.Pos())
		if where != nil {
			pos = p.InstrPos(where)
		}
		r.Decide(missOK, R, "loaded-lookup-both-layers:"+p.Name(f), pos, "'not loaded' is answered only after the write set and the read cache both missed", "an in-memory lookup answers 'not loaded' without having consulted both the write set and the read cache: slabs that were committed or read (and are cached) would look unloaded")
		for _, layer := range []string{"deltas", "cache"} {
			for _, b := range f.Blocks {
				if ifi, ok := b.Instrs[len(b.Instrs)-1].(*ssa.If); ok {
					if lk, ok := p.commaOkLookupTest(ifi, layer); ok {
						p.checkHitReturns(r, R, f, b, lk, layer)
					}
				}
			}
		}
	}
	// in any storage routine that consults both maps for an id, the cache lookup lies on the miss edge of the deltas lookup
	for _, f := range p.TopFuncs() {
		if recvName(f) != storageT || !hasParamOfType(f, "SlabID") || !returnsSlab(f) {
			continue
		}
		eachInstr(f, func(in ssa.Instruction) {
			v, ok := in.(ssa.Value)
			if !ok {
				return
			}
			fr, _, ok := mapLookupOf(v)
			if !ok || !fr.is(storageT, "cache") || p.firstLookup(f, "deltas") == nil {
				return
			}
			dom := false
			for _, b := range f.Blocks {
				if ifi, ok := b.Instrs[len(b.Instrs)-1].(*ssa.If); ok {
					if _, ok := p.commaOkLookupTest(ifi, "deltas"); ok && edgeDominates(b, 1, in.Block()) {
						dom = true
					}
				}
			}
			r.Decide(dom, R, "cache-after-deltas:"+p.Name(f), p.InstrPos(in), "read cache consulted only on the miss edge of the write-set lookup",
				"read cache is consulted without first missing in the write set: a replaced slab object would be shadowed by the cached one")
		})
	}
	r.Floor(R, "lookup routines", 3, n)
}

func (p *Prog) firstLookup(f *ssa.Function, field string) ssa.Instruction {
	var out ssa.Instruction
	eachInstr(f, func(in ssa.Instruction) {
		if v, ok := in.(ssa.Value); ok && out == nil {
			if fr, _, ok := mapLookupOf(v); ok && fr.is(storageT, field) {
				out = in
			}
		}
	})
	return out
}

// consultsLayer: f performs a comma-ok lookup in the given storage map.
func (p *Prog) consultsLayer(f *ssa.Function, field string) bool {
	found := false
	eachInstr(f, func(in ssa.Instruction) {
		if v, ok := in.(ssa.Value); ok {
			if fr, lk, ok := mapLookupOf(v); ok && lk.CommaOk && fr.is(storageT, field) {
				found = true
			}
		}
	})
	return found
}

// checkHitReturns: on the hit edge of the lookup the function returns the found slab.
func (p *Prog) checkHitReturns(r *Report, R string, f *ssa.Function, b *ssa.BasicBlock, lk *ssa.Lookup, layer string) {
	hit := b.Succs[0]
	good := false
	if ret, ok := hit.Instrs[len(hit.Instrs)-1].(*ssa.Return); ok && len(ret.Results) > 0 {
		if ex, ok := canon(ret.Results[0]).(*ssa.Extract); ok && ex.Index == 0 && ex.Tuple == ssa.Value(lk) {
			good = true
		}
		// single-exit form: the returned value is a phi of the exit block that takes the found entry on the hit edge
		if ph, ok := ret.Results[0].(*ssa.Phi); ok && ph.Block() == hit {
			for i, pr := range hit.Preds {
				if pr == b {
					if ex, ok := canon(ph.Edges[i]).(*ssa.Extract); ok && ex.Index == 0 && ex.Tuple == ssa.Value(lk) {
						good = true
					}
				}
			}
		}
	}
	r.Decide(good, R, "hit-returns:"+p.Name(f)+":"+layer, p.InstrPos(lk), "a hit in "+layer+" returns that very entry", "a hit in "+layer+" does not return the entry that was found")
}

func returnsSlab(f *ssa.Function) bool {
	res := f.Signature.Results()
	return res.Len() >= 1 && typeName(res.At(0).Type()) == "Slab"
}

func hasParamOfType(f *ssa.Function, name string) bool {
	for _, prm := range f.Params {
		if typeName(prm.Type()) == name {
			return true
		}
	}
	return false
}

// S8 field-write ownership of PersistentSlabStorage.
func ruleS8(p *Prog, r *Report) {
	const R = "S8"
	bw := p.baseWriteFuncs()
	inCommit := func(f *ssa.Function) bool { _, ok := bw[f]; return ok }
	named := func(names ...string) func(*ssa.Function) bool {
		return func(f *ssa.Function) bool {
			if recvName(f) != storageT {
				return false
			}
			for _, n := range names {
				if f.Name() == n {
					return true
				}
			}
			return false
		}
	}
	or := func(fs ...func(*ssa.Function) bool) func(*ssa.Function) bool {
		return func(f *ssa.Function) bool {
			for _, g := range fs {
				if g(f) {
					return true
				}
			}
			return false
		}
	}
	type row struct {
		field, kind string
		allowed     func(*ssa.Function) bool
		why         string
	}
	table := []row{
		{"deltas", "mapupdate", named("Store", "Remove"), "only the SlabStorage Store/Remove methods add pending changes"},
		{"deltas", "mapdelete", inCommit, "only routines that write registers retire pending changes"},
		{"deltas", "assign", named("DropDeltas"), "only DropDeltas discards the write set"},
		{"cache", "mapupdate", or(inCommit, named("RetrieveIgnoringDeltas", "BatchPreload")), "cache is filled by commit (moved entries), by ledger reads and by preload"},
		{"cache", "mapdelete", func(*ssa.Function) bool { return false }, "nothing evicts single cache entries"},
		{"cache", "assign", named("DropCache", "BatchPreload"), "DropCache discards, BatchPreload pre-sizes an empty cache"},
		{"tempSlabIndex", "assign", named("GenerateSlabID"), "temporary id counter"},
		{"baseStorage", "assign", func(*ssa.Function) bool { return false }, "set by the constructor only"},
		{"cborEncMode", "assign", func(*ssa.Function) bool { return false }, "set by the constructor only"},
		{"cborDecMode", "assign", func(*ssa.Function) bool { return false }, "set by the constructor only"},
		{"DecodeStorable", "assign", func(*ssa.Function) bool { return false }, "set by the constructor only"},
		{"DecodeTypeInfo", "assign", func(*ssa.Function) bool { return false }, "set by the constructor only"},
	}
	// a private helper of the storage type all of whose callers are allowed writers
	// is part of those writers (the routine was split, its ownership was not)
	var viaHelpers func(allowed func(*ssa.Function) bool, f *ssa.Function, depth int) bool
	viaHelpers = func(allowed func(*ssa.Function) bool, f *ssa.Function, depth int) bool {
		if allowed(f) {
			return true
		}
		if depth > 3 || f.Object() == nil || f.Object().Exported() || recvName(f) != storageT {
			return false
		}
		sites := p.CallersOf(f)
		if len(sites) == 0 {
			return false
		}
		for _, cs := range sites {
			if !viaHelpers(allowed, TopLevel(cs.Caller), depth+1) {
				return false
			}
		}
		return true
	}
	n := 0
	seenRow := map[string]bool{}
	for _, top := range p.TopFuncs() {
		eachInstrDeep(top, func(fn *ssa.Function, in ssa.Instruction) {
			fw, ok := fieldWriteOf(in)
			if !ok || fw.Ref.Owner == nil || fw.Ref.Owner.Obj().Name() != storageT || fw.Ref.Owner.Obj().Pkg().Path() != rootPkgPath {
				return
			}
			if isFreshBase(fw.Ref.Base) {
				return // constructor-style initialisation of a new storage object
			}
			if !storageLayerFields[fw.Ref.Field] {
				return // not part of the overlay model (rule S13 decides companions of the write set)
			}
			n++
			cons := fmt.Sprintf("%s.%s:%s", fw.Ref.Field, fw.Kind, p.Name(top))
			var rw *row
			for i := range table {
				if table[i].field == fw.Ref.Field && table[i].kind == fw.Kind {
					rw = &table[i]
				}
			}
			if rw == nil {
				r.Bad(R, cons, p.InstrPos(in), "write of a kind not foreseen by the field-ownership table")
				return
			}
			seenRow[rw.field+"."+rw.kind] = true
			inGo := fn.Parent() != nil && isGoTarget(fn)
			if inGo {
				r.Bad(R, cons, p.InstrPos(in), "storage field written from a worker goroutine")
				return
			}
			r.Decide(viaHelpers(rw.allowed, top, 0), R, cons, p.InstrPos(in), rw.why, "writer not allowed by the ownership table ("+rw.why+")")
			// BatchPreload may replace the cache only when it is empty
			if fw.Ref.Field == "cache" && fw.Kind == "assign" && viaHelpers(named("BatchPreload"), top, 0) {
				guard := false
				for _, b := range fn.Blocks {
					ifi, ok := b.Instrs[len(b.Instrs)-1].(*ssa.If)
					if !ok {
						continue
					}
					if bo, ok := ifi.Cond.(*ssa.BinOp); ok && bo.Op == token.EQL {
						if z, ok := constInt(bo.Y); ok && z == 0 {
							if cc, ok := bo.X.(*ssa.Call); ok {
								if bi, ok := cc.Call.Value.(*ssa.Builtin); ok && bi.Name() == "len" {
									if fr, ok := asLoadedField(cc.Call.Args[0]); ok && fr.is(storageT, "cache") && edgeDominates(b, 0, in.Block()) {
										guard = true
									}
								}
							}
						}
					}
				}
				r.Decide(guard, R, "cache.assign-guard:"+p.Name(top), p.InstrPos(in), "cache replaced only when len(cache) == 0", "BatchPreload replaces a non-empty read cache")
			}
		})
	}
	// maps handed out through accessors must not be mutated in non-test code
	for _, top := range p.TopFuncs() {
		eachInstrDeep(top, func(fn *ssa.Function, in ssa.Instruction) {
			var m ssa.Value
			switch x := in.(type) {
			case *ssa.MapUpdate:
				m = x.Map
			default:
				if cc, ok := isBuiltinCall(in, "delete"); ok {
					m = cc.Args[0]
				}
			}
			if m == nil {
				return
			}
			if c, ok := canon(m).(*ssa.Call); ok && c.Call.StaticCallee() != nil {
				if fr, ok := accessorField(c.Call.StaticCallee()); ok && fr.Owner != nil && fr.Owner.Obj().Name() == storageT {
					r.Bad(R, "accessor-mutation:"+p.Name(top), p.InstrPos(in), "storage map obtained through an accessor is mutated outside the owning routines")
				}
			}
		})
	}
	var rows []string
	for k := range seenRow {
		rows = append(rows, k)
	}
	sort.Strings(rows)
	r.Floor(R, "storage field writes classified ("+strings.Join(rows, ",")+")", 10, n)
}

// storageMutators: functions that write deltas (any kind) or registers.
func (p *Prog) deltaWriters() map[*ssa.Function]bool {
	out := map[*ssa.Function]bool{}
	for _, top := range p.TopFuncs() {
		eachInstrDeep(top, func(fn *ssa.Function, in ssa.Instruction) {
			if fw, ok := fieldWriteOf(in); ok && fw.Ref.is(storageT, "deltas") && !isFreshBase(fw.Ref.Base) {
				out[top] = true
			}
			if _, _, ok := p.baseWrite(in); ok {
				out[top] = true
			}
		})
	}
	return out
}

// S9 observers are pure with respect to the write set and the ledger.
func ruleS9(p *Prog, r *Report) {
	const R = "S9"
	writers := p.deltaWriters()
	isObserver := func(f *ssa.Function) bool {
		if f.Name() == "CheckStorageHealth" && f.Signature.Recv() == nil {
			return true
		}
		if recvName(f) != storageT || !isExportedAPI(f) {
			return false
		}
		switch f.Name() {
		case "Store", "Remove", "DropDeltas":
			return false
		}
		if isCommitEntry(f) {
			return false
		}
		return true
	}
	n := 0
	for _, f := range p.TopFuncs() {
		if !isObserver(f) {
			continue
		}
		n++
		reach := p.ReachableFrom([]*ssa.Function{f}, nil)
		var badf []string
		for g := range reach {
			if writers[g] {
				badf = append(badf, p.Name(g))
			}
		}
		sort.Strings(badf)
		r.Decide(len(badf) == 0, R, "observer:"+p.Name(f), p.Pos(f.Pos()),
			fmt.Sprintf("%d reachable functions, none writes the write set or a register", len(reach)),
			"observer can reach a writer of the write set / ledger: "+strings.Join(badf, ", "))
	}
	r.Floor(R, "observer entry points", 10, n)
}
