package main

func registerAll() {
	reg("S1", "who-may-write-registers: BaseStorage.Store/Remove reachable only through commit entry points; Ledger.SetValue only in BaseStorage adapters", ruleS1)
	reg("S2", "temp-address filter: every collector of commit keys guards each key use by address != AddressUndefined and records every owned key", ruleS2)
	reg("S3", "delete-after-success: a write-set entry is deleted / moved to the cache only after the register write of the same id returned nil", ruleS3)
	reg("S4", "no silent skip: every completed iteration of an apply loop issues a register write", ruleS4)
	reg("S5", "error surfacing: errors of register writes, EncodeSlab and worker results return a non-nil error without further writes", ruleS5)

	reg("S6", "sorted apply: the deterministic commit writes registers by walking, first to last, a slice returned by a collector that sorts it on every path with a comparator decided (order abstraction over the 9 address x index orderings) to be ascending (owner, index)", ruleS6)
	reg("S7", "lookup order: write set, then read cache, then ledger; hits return the found entry; cache fill guarded by the cache flag and holds DecodeSlab of the same id", ruleS7)
	reg("S8", "field-write ownership table of PersistentSlabStorage (who may update/delete/replace deltas, cache, counters, codecs)", ruleS8)
	reg("S9", "observers (everything exported on PersistentSlabStorage except Store/Remove/DropDeltas/commit, and CheckStorageHealth) cannot reach a writer of the write set or of registers", ruleS9)

	reg("G1", "worker effects: the transitive effect set of every goroutine body has no write to storage/container/slab fields, globals or captured variables", ruleG1)
	reg("G2", "drain before write: maps read by workers are written by the launcher only after a receive loop counted to the number of queued jobs", ruleG2)
	reg("G3", "goroutine lifecycle: defer wg.Done, wg.Add(n) for n launches, close(results) deferred after wg.Wait, buffered job/result channels", ruleG3)

	reg("D1", "every range over a Go map in deterministic code is collect-then-sort or commutative (accumulation, per-key update, constant/abort return, effect-free calls); order-relaxed routines are unreachable from deterministic entry points", ruleD1)
	reg("D2", "no ambient nondeterminism: no rand/time/os/unsafe/runtime imports, no %p, no uintptr conversion, no scheduling-dependent select", ruleD2)
	reg("D3", "seed purity: MapExtraData.Seed and SetSeed arguments derive only from the fresh slab id, an existing seed, a parameter or the decoded register", ruleD3)
	reg("D4", "pools are state-free: Reset before Pool.Put on every path, Pool.Get only in trivial wrappers, Reset covers every field read", ruleD4)

	reg("G4", "pool discipline: after a non-deferred put no use of the object or its aliases is reachable; with a deferred put no alias is returned, stored, sent or captured", ruleG4)
	reg("G5", "no package-level variable is written by a function reachable from the API after init", ruleG5)

	reg("R4", "notify-parent: every exported mutator of Array/OrderedMap (computed from may-effects on slab state) calls notifyParentIfNeeded on every success path (extra-data-only mutators may instead store the standalone root on the not-inlined edge)", ruleR4)

	reg("R5", "callback-install: every stored child handed out (StoredValue of a looked-up value) or stored (root.Set/Insert of a caller value) passes setCallbackWithChild on every success path with the container's inline limit; read-only iterators arm setMutationCallback", ruleR5)
	reg("R7", "detached child is materialised: every Storable returned by an exported Array/OrderedMap method is the result of uninlineStorableIfNeeded; an element overwritten with the very container it already holds is told apart first and not uninlined", ruleR7)
	reg("N1", "the mutableElementIndex entry of a removed/overwritten child is deleted, guarded only by identity tests; a bulk pop resets the whole index", ruleN1)
	reg("N2", "parent-updater callbacks re-set the child only on paths that passed a ValueID.equal==true edge and after a fresh lookup", ruleN2)
	reg("N3", "parentUpdater is assigned only by setParentUpdater and cleared only on the not-found edge of its own invocation", ruleN3)
	reg("L8", "root-id preservation: whatever replaces Array/OrderedMap.root carries the id read from the previous root before any id change; ValueID independent of inlining", ruleL8)
	reg("L10", "map element count: incrementCount exactly on (Set ok, no existing value), decrementCount exactly on Remove ok, no other writers", ruleL10)

	reg("E1", "error category table: each rejection constructor ends in the contract's category constructor; all constructors categorised; category types keep Unwrap; wrap helper recognises all three categories", ruleE1)
	reg("E2", "errors of caller-supplied components (Ledger, BaseStorage, SlabStorage, DigesterBuilder, ValueComparator, HashInputProvider) never leave a function raw", ruleE2)
	reg("K1", "collision-limit rejection: first level only, depends on the limit comparison, only for absent keys (KeyNotFound of Get(key)), before any effect", ruleK1)

	reg("X1", "type-switch exhaustiveness over the closed slab/element families: every member that can reach the switch has a case, or the default reports an error / panics", ruleX1)

	reg("X2", "reference coverage: every field of a slab/element type that can hold a slab reference is read by the ChildStorables call graph (sibling links and own ids exempt by table)", ruleX2)
	reg("X3", "traversal agreement: the three reference walkers recognise SlabIDStorable and descend through nested storables; broken vs resolved references split by the found flag; every failure predicate of the health check controls an error return", ruleX3)
	reg("X4", "iterator agreement: Next/NextKey/NextValue of one iterator type write the same cursor fields", ruleX4)
	reg("X5", "can-copy / copy agreement per type: constant-false iff always-error; non-constant predicates refuse on the same receiver state the copy fails on", ruleX5)
	reg("X6", "copy independence: reference-typed fields of a copy never receive a value loaded from the source", ruleX6)

	reg("R1", "dirty-mark typestate: every slab mutated or created on a success path is stored or removed (stores guarded by !inlined count; pure mutators export the obligation to their callers) and nothing is left open at the API boundary", ruleR1)
	reg("R2", "every id from GenerateSlabID becomes a slab identity, is delegated, or is returned", ruleR2)
	reg("R3", "detach => remove (merge, bulk pop of children, inline, root promotion, external collision group collapse/pop) and uninline => store, on every success path", ruleR3)
	reg("R6", "reject-before-effect: in every function that can return a request rejection, no effect precedes the rejection on any path (interprocedural)", ruleR6)

	reg("P2", "decode scope (everything reachable from DecodeSlab, the raw-header queries and the size/child accessors) has no explicit panic except the unreachable tail of an exhaustive family switch, and no unproven single-result type assertion", ruleP2)
	reg("P5", "every make in decode scope has a size bounded by a constant, a length, a 16-bit field, a CBOR-delivered count (A-CBOR) or a dominating comparison with such", ruleP5)
	reg("P6", "every loop in decode scope is a range loop, a counter loop with loop-invariant bound, or a worklist over decoded children", ruleP6)
	reg("P7", "uint32 additions of ByteSize()/Size() of decoded content go through safeAdd helpers", ruleP7)

	reg("P3", "every slice, index and fixed-width read in decode scope is covered by a dominating length fact (constant/exact guards through reslicing and phis, call-site facts for private helpers, range loops, symbolic guards) or by the stride-loop / chunked-read idioms", ruleP3)

	reg("P8", "accessor totality: interface fields that ByteSize/ChildStorables/Size/Count dereference unconditionally are set by every slab/part literal built in decode scope", ruleP8)

	reg("L5", "threshold arithmetic proven for every slab size t in [minSlabSize, maxSlabSize] by affine-interval abstract interpretation of setThreshold: min/max band, 16-bit fit, two maximal elements per slab (array, map), key+value fit, no unsigned underflow", ruleL5)

	reg("L6", "inline-limit arguments: every Value.Storable call passes the limit of its container kind (array elements, map keys, map values sized from the same element's key)", ruleL6)
	reg("L9", "rebalance decision: after a child mutation every success path evaluates child.IsFull / child.IsUnderflow and refreshes the parent's copy of the child header; handles evaluate root.IsFull and the single-child promotion test", ruleL9)
	reg("L7", "co-update table: a write of a summarised field (element lists, child header tables, inlined flag) is accompanied on every success path by a write of its summary fields (size, count sums), possibly by a same-type callee or by every caller", ruleL7)

	reg("L3", "header flags: setter and getter use the same byte and single-bit mask, disjoint from type/version bits; each slab encoder sets each flag exactly under the state it describes; V1 decoders and the raw-bytes queries consult them", ruleL3)
	reg("L4", "vocabularies: every CBOR tag emitted by an encoder is dispatched by a decoder (or by the client decoder, by table) and vice versa, tag numbers are distinct, slab kinds emitted == kinds dispatched by DecodeSlab, encoders emit version 1, decoders accept exactly {0,1}", ruleL4)

	reg("L1", "encoder width = size constant: abstract interpretation of every slab/element encoder (fixed-width writes, optional groups, per-entry loop bytes, spliced callees) compared by value with the prefix/stride constants; the only optional group is the sibling link", ruleL1)

	reg("L2", "decoder prefix = in-memory prefix: for every slab literal built by a decoder, the constant part of its size, evaluated per state (root / non-root / inlined), equals what getPrefixSize() returns for that state", ruleL2)

	reg("B1", "index-guard exactness: every IndexOutOfBoundsError rejection is reachable exactly under the orderings of (index, bound) that are out of range for the operation (>= for access, > for insertion), and no non-error exit is reachable past the guard under those orderings", ruleB1)
	reg("L15", "dedup-key completeness: the key under which the slab encoder shares an extra-data entry between inlined containers is a function of the encoded type information and of every field-name list handed in (data dependence through package callees, every non-empty-list return), and every field name enters it together with its length (injective encoding)", ruleL15)
	reg("L16", "established sizes carry the encoded prefix: every literal, absolute assignment and computed size function starts from the prefix constant of the object's kind and state (data slabs: root / non-root / inlined per getPrefixSize; one constant for every other kind; list literals add their per-entry constant)", ruleL16)
	reg("L23", "first-digest summary follows the element list: after an element-list operation in a map data slab, every slab whose list may have a different first element (or may have been empty: Set, Remove, PopIterate, Merge receiver; LendToRight right; BorrowFromRight both) writes header.firstKey on every success path", ruleL23)
	reg("K3", "a stored key is materialised once: no key materialisation (Value.Storable with the key limit, directly or through an element constructor) is dominated by the true edge of a ValueComparator result (on that branch the stored key stays; a second materialisation orphans the first key slab)", ruleK3)
	reg("K2", "entry counts: element.Count of a collision group is its own element list's Count, of a single element 1; elements.Count is the length of the receiver's element slice (the collision limit counts entries through these)", ruleK2)
	reg("X7", "decoded objects own their storage: no slice, map or pointer reachable by loads alone from the slab's shared inlined extra data is stored into a freshly decoded slab, element list or extra data", ruleX7)
	reg("X8", "no silent skip on a family downcast: a comma-ok assertion of a slab / element / element-list interface value to one member either reports the other members as an error or rejoins the common path; an early success return on the not-ok edge is a silent skip", ruleX8)
	reg("L17", "batch builders: the next tree level is built only from a slice tested (after its last change) to hold at least two slabs; the underfull last slab of a level merges only where its left sibling cannot lend and borrows only where it can", ruleL17)
	reg("N4", "identity predicate: ValueID.equal(SlabID) is true exactly when address and index both match (evaluated on the four truth assignments of its component comparisons; halves checked from the slice bounds)", ruleN4)
	reg("L18", "encodability of inlined containers: for every slab size, a slab cannot hold more inlined containers than the one-byte inlined-extra-data index can address (affine bound over setThreshold)", ruleL18)
	reg("I4", "removal keeps order: no Remove of an element list or array data slab moves an element to another position by an element store (swap-remove)", ruleI4)
	reg("L19", "CBOR head width table: GetUintCBORSize agrees with the encoder's head widths (1/2/3/5/9 bytes at 23, 2^8-1, 2^16-1, 2^32-1) on every interval of uint64 cut by the constants it compares with", ruleL19)
	reg("L21", "raw CBOR heads are well formed: every EncodeRawBytes argument, evaluated to constant / run-time bytes (latest dominating write of each scratch position), parses as CBOR items whose first byte is a constant head announcing exactly the bytes that follow; run-time bytes only in announced payload positions; all-run-time chunks only as the announced payload (count * width) of a byte-string head", ruleL21)
	reg("L22", "limit agreement between writer and reader: no decoder rejects an element / extra-data count that the encoders can write (two-byte count heads; extra-data indexes 0..maxInlinedExtraDataIndex), and each encoder refuses an extra-data index exactly when it exceeds maxInlinedExtraDataIndex", ruleL22)
	reg("L20", "type-info references are resolved for every kind of inlined extra data: wherever the reference-resolving decoder is built, every callee handed a TypeInfoDecoder receives it (not the plain decoder)", ruleL20)
	reg("S10", "every collected key is applied: in each commit entry point the collected owned keys (collector result, or the exact front/back regions of a local collector array - any other slice view of it is reported) are, on every success path, walked by a register-writing loop or helper, or fed to workers whose results are applied by a receive-and-write loop; paths on which the collection is known empty are exempt", ruleS10)
	reg("X9", "a copy carries every field: every field of every in-package struct a copy function builds is assigned in that function (fields whose zero value is what a copy must have are listed with the reason)", ruleX9)
	reg("G7", "shared global objects: every package-level variable that holds a reference is a sync.Pool, a function that captures nothing, a pointer to an in-package struct whose methods never write the receiver, or a slice/map that is only read; no method of another package's object is called through a global", ruleG7)
	reg("G6", "arrival-independent outcome: no return inside a launcher's receive loop depends on the content of an individual worker result (which error is returned and what was applied before it must not depend on which worker finished first)", ruleG6)
	reg("N5", "an outdated parent-updater never reads the former parent's slabs: the closure reaches slab storage only on the edge where an in-memory registry of the parent (keyed by the child's value id) still lists the child", ruleN5)
	reg("I2", "iterator cursor advance: every exit of a Next/next method that hands out an element is preceded on all paths by a write of the iterator's cursor state (own field, nested iterator, or delegation to its own Next)", ruleI2)
	reg("I3", "range validation: the range iterator constructors reject start > end and bounds beyond the count", ruleI3)

	reg("L11", "decoded-field coverage: every slab literal built by a decoder restores every field the in-memory code maintains for that state (sibling link, header id/size/count/first key, elements, extra data, any-size and collision-group flags, inlined flag)", ruleL11)

	reg("L12", "inline/uninline decision table: Array.Storable / OrderedMap.Storable evaluated on the four (inlinable, inlined) states perform exactly the transition and return exactly the representation the state requires; index slabs are never inlinable; data slabs are inlinable only as roots within the caller's limit", ruleL12)
	reg("L13", "merge only when no sibling can lend, rebalance only when one can (MergeOrRebalanceChildSlab decision edges)", ruleL13)

	reg("L14", "direct-build fast path: newArrayWithElements is called only on the edge where the real summed element size was compared with the slab-size threshold, and the size handed over is accumulated from ByteSize() of exactly the elements placed in the list", ruleL14)

	const tCFG = "CFG path rules on go/ssa (must-precede, edge dominance, loop-iteration coverage, error-edge reachability)"
	propTable["C01"] = &PropSpec{
		ID:          "C01",
		Rules:       []string{"L8", "L7", "L9", "R6", "B1", "L6", "R1", "R7", "N1", "N2", "N4", "L16", "X7"},
		Explanation: "structural necessary conditions of sequence behaviour: every index-out-of-bounds rejection is taken exactly when the request is out of range for the operation (index >= count for access, index > count for insertion; decided by case analysis over the three orderings of index and bound) and cannot be passed when out of range; whatever replaces the root carries the id read from the previous root (so the array can always be reopened by its identifier); every write of an element list or child header table is accompanied on every success path by the matching size / count / cumulative-count update; after a child mutation every success path evaluates the split / merge decision and refreshes the parent's header copy, and the handle evaluates root.IsFull and single-child promotion; out-of-range requests are rejected before any effect; elements are materialised with the array's inline limit; every slab mutated or created by an operation is stored (or its parent notified) before the operation returns, so a later reopen by the root identifier sees the same sequence; the index kept for nested containers is deleted with the element it tracks and reset by a bulk pop (a stale entry makes the next in-range Insert fail); a nested container's parent-updater callback writes into the array only after confirming, by value id, that the slot still holds that container. Cached sizes start from the encoded prefix of the object's kind and state wherever they are established or re-based (a wrong prefix wraps around on the next re-basing and makes an in-range request fail in splitRoot). An element overwritten with the very container it already holds is recognised before the overwritten storable is uninlined (otherwise the slab just stored as the new element is un-inlined under the parent). Decoded inlined arrays own their extra data (a type change of one reloaded child must not change the type its siblings report).",
		NotDecided:  "that returned elements equal the sequence model: index routing (linear scan / binary search over cumulative counts), split/merge/borrow arithmetic and 'in-range requests never fail' are value-dependent and not decided statically.",
		Technique:   "co-update path rules, must-pass-through rules and reject-before-effect typestate over go/ssa",
	}
	propTable["C02"] = &PropSpec{
		ID:          "C02",
		Rules:       []string{"L10", "L7", "L9", "R6", "K1", "K2", "L6", "R1", "R7", "N2", "N4", "L16", "X7", "D4", "L23", "K3"},
		Explanation: "structural necessary conditions of dictionary behaviour: the element count changes exactly on (Set succeeded, no existing value) and on successful Remove; digests, elements and cached sizes are co-updated on every success path; the split / merge decision and header refresh follow every child mutation; absent keys and the collision limit are reported before any effect; keys and values are materialised with the key limit and a value limit derived from the same element's key; collision groups and element lists report their entry counts; every slab mutated or created is stored before the operation returns; a nested container's parent-updater callback writes into the map only after confirming, by value id, that the slot still holds that container. Cached sizes start from the encoded prefix of the object's kind and state wherever they are established or re-based (a wrong prefix wraps around on the next re-basing and makes an in-range request fail in splitRoot). Decoded element lists own their digest slices. The first digest a data slab reports to its parent is refreshed after every element-list operation that can change it (an emptied slab that borrows from its sibling would otherwise keep digest 0 and make its keys unreachable); a key is materialised only where no stored key was found equal to it. An element overwritten with the very container it already holds is recognised before the overwritten storable is uninlined (otherwise the slab just stored as the new element is un-inlined under the parent).",
		NotDecided:  "dictionary equivalence, digest routing (binary search over sorted digests), collision-group semantics: value-dependent.",
		Technique:   "control-dependence and co-update path rules, reject-before-effect typestate",
	}
	propTable["C05"] = &PropSpec{
		ID:          "C05",
		Rules:       []string{"L5", "L6", "L9", "L13", "L14", "L17", "L7", "L16", "X7", "L23"},
		Explanation: "for EVERY slab size t in [minSlabSize, maxSlabSize] (affine-interval abstract interpretation of setThreshold, not a sample): minThreshold is t/2, maxThreshold is 1.5t and fits the 16-bit size fields, two maximal array elements plus the slab prefix fit in t, two maximal map elements plus digests and prefixes fit in t, a maximal key plus an equal value fit the element limit, and no unsigned subtraction underflows; every element is materialised with the limit of its container kind; every mutation path runs the full / underflow decision and refreshes the index data it summarises (sizes, counts, cumulative counts, header copies). The batch builders build the next tree level only from at least two slabs and merge / rebalance the underfull last slab of a level on the correct decision edges. Cached sizes (which the parents' header tables copy) start from the encoded prefix of the object's kind and state wherever they are established or re-based; decoded element lists do not share their digest slices with other containers (an in-place edit of one would unsort another). After every element-list operation in a map data slab (and every lend / borrow between index slabs) the slab whose first element may have changed, or which may have been empty, refreshes the first digest its parent routes by.",
		NotDecided:  "that split, lend/borrow and merge choose points that keep both sides inside the band (depends on element sizes); sortedness/uniqueness of digests and sibling links (value-level).",
		Technique:   "affine-interval abstract interpretation (exhaustive over the symbolic slab size), value-flow checks on Storable() limits, must-pass-through path rules",
	}
	propTable["C03"] = &PropSpec{
		ID:          "C03",
		Rules:       []string{"R1", "R2", "R4", "S1", "S2", "S3", "S4", "S5", "S10"},
		Explanation: "every slab mutated or created on a success path is stored or removed before the API call returns (typestate over slab objects with interprocedural summaries; re-keyed slabs need a later store; stores guarded by !inlined hand over to the notify-parent rule), every allocated id becomes a slab identity, every exported mutator notifies its parent; registers are written or deleted only by routines reachable exclusively through the commit entry points (call-graph closure over every exported/API function); Ledger.SetValue only inside the BaseStorage adapter; every collector of commit keys guards each key by address != AddressUndefined and records every owned key; every completed apply-loop iteration issues a register write; no register-write/encode/worker error is swallowed by a commit that returns nil. The error of a register write surfaces also through the wrap helpers (which return nil for a nil argument: the value wrapped must be the failing call's error on that path). Every collected owned key is applied on every success path of a commit (walked by a register-writing loop or helper, or fed to workers whose results are applied); no view of the collected keys other than the exact collected regions is used.",
		NotDecided:  "that the encoded content equals the in-memory content (C07), determinism (C04); batch builders are analysed with weak updates on their slab collections.",
		Technique:   "call-graph reachability (who-may-write-registers) + " + tCFG,
	}
	propTable["C04"] = &PropSpec{
		ID:          "C04",
		Rules:       []string{"D1", "D2", "D3", "D4", "S6", "G2", "S2", "G4"},
		Explanation: "no Go-map iteration order can reach results: every map range in deterministic code is collect-then-sort or commutative, order-relaxed routines are unreachable from deterministic entry points; the deterministic commit walks, first to last, a slice that its collector sorts on every path with a comparator that is decided by order abstraction (all 9 address x index orderings) to be ascending (owner, index), with big-endian integer views; worker results are applied by key only after the drain; the map seed derives only from the fresh slab id / an existing seed; pooled objects are Reset before reuse and Reset covers every field read; no clock, randomness, address or scheduling source is imported or used. A pooled object is returned to its pool at most once (a double put hands one buffer to two encoders, so the bytes of a register depend on worker count and scheduling).",
		NotDecided:  "determinism of client Value/TypeInfo encoders and of the CBOR library; byte-identity of two executions as such.",
		Technique:   "map-range classification over SSA loops, order-abstraction interpretation of the sort comparator, backward slices (seed), import/AST scan",
	}
	propTable["C15"] = &PropSpec{
		ID:          "C15",
		Rules:       []string{"S1", "S2", "S3", "S7", "S8", "S9", "S10"},
		Explanation: "layering of the write-back overlay: lookups consult write set, then read cache (only on the write-set miss edge), then ledger (only on the cache miss edge) and a hit returns the found entry; cache fills are guarded by the cache flag and hold DecodeSlab of the same id; a frozen ownership table says which routine may update / delete / replace each field of PersistentSlabStorage (Store/Remove add to deltas, only register-writing routines retire entries, only DropDeltas/DropCache replace a map, BatchPreload fills only the cache and pre-sizes it only when empty); commit moves an entry to the cache (nil after Remove, the write-set object after Store) and deletes it only on the success edge; temp-address ids never reach a register call; every exported observer is unable to reach a writer of the write set or of registers.",
		NotDecided:  "the value-level state-machine closure (that the sequence of views equals the model for every history).",
		Technique:   "field-write ownership table + dominance of lookups + call-graph reachability for observers + " + tCFG,
	}
	propTable["C16"] = &PropSpec{
		ID:          "C16",
		Rules:       []string{"G1", "G2", "G3", "G4", "G5", "G6", "G7", "D4"},
		Explanation: "every goroutine body's transitive may-effect set has no write to storage, container, slab or global state and no write through captured variables; maps read by workers are written by the launcher only after a receive loop counted to the number of queued jobs; workers defer wg.Done, wg.Add(n) dominates a loop launching n workers, close(results) is deferred after wg.Wait, job/result channels are buffered; after a non-deferred put no use of the pooled object or an alias is reachable (up to re-definition), with a deferred put no alias escapes; objects are Reset before Pool.Put; no package variable can be written after init through any API function. A pooled object is put at most once per Get (no non-deferred put beside a deferred one); the result channel has the capacity of the job queue whenever workers send unconditionally. The job channel is closed on every way out of a launcher; no return inside a launcher's receive loop depends on the content of an individual worker result (otherwise the error returned and the cache fills applied before it depend on which worker finished first - two open known findings: FastCommit, BatchPreload). Every package-level variable that holds a reference shares only immutable or concurrency-safe objects (pools, capture-free functions, read-only tables, stateless sentinels): no method of another package's object (a shared hasher, encoder or buffer) is called through a global.",
		NotDecided:  "sequential equality of the results of a concurrent run (only through C04), races inside client callbacks, retention of pooled objects by callees.",
		Technique:   "may-effect summaries over the call graph, dominance by drain-loop exits, alias taint for pooled objects",
	}
	propTable["C10"] = &PropSpec{
		ID:          "C10",
		Rules:       []string{"R4", "R5", "R1", "R7", "L8", "N1", "N2", "N4", "L9", "L6", "L12", "L16", "X7", "L18", "L15", "N5"},
		Explanation: "every exported mutator of Array/OrderedMap (computed from may-effects on slab state over a closure-granular call graph) calls notifyParentIfNeeded on every success path (extra-data-only mutators may store the standalone root on the not-inlined edge instead); every child handed out by lookup/mutable iteration or stored by Set/Insert passes setCallbackWithChild on every success path with the container's own inline limit (array: maxInlineArrayElementSize; map: maxInlineMapValueSize of that element's key storable size); read-only iterators arm the mutation callback; whatever replaces a container's root carries the id read from the previous root before any id change, and ValueID does not depend on the inlined state. Parent-updater callbacks re-validate the child's identity (address and index) before writing, so a mutation reaches the slot that holds this child and no other. Cached sizes start from the encoded prefix of the object's kind and state wherever they are established or re-based (a wrong prefix wraps around on the next re-basing and makes an in-range request fail in splitRoot). Decoded children own their digest slices (a reloaded sibling is not disturbed by a mutation through another child's handle). An element overwritten with the very container it already holds is recognised before the overwritten storable is uninlined (otherwise the slab just stored as the new element is un-inlined under the parent). For every slab size a slab can hold no more inlined containers than the one-byte inlined-extra-data index addresses (else a later commit cannot encode it; known finding).",
		NotDecided:  "that the callback finds the right element after arbitrary parent restructuring (mutableElementIndex arithmetic), 'inlined exactly when it fits' (value-dependent), validity of ancestors.",
		Technique:   "must-pass-through path rule over go/ssa CFG with interprocedural must-notify summaries; may-effect summaries to compute the mutator set; value-flow checks on callback arguments and root ids",
	}
	propTable["C11"] = &PropSpec{
		ID:          "C11",
		Rules:       []string{"R7", "N1", "N2", "N4", "N3", "R3", "X7", "N5", "R1", "R6"},
		Explanation: "every Storable returned by an exported Array/OrderedMap method is the result of uninlineStorableIfNeeded (so a detached inlined child becomes a stored standalone slab) and that helper uninlines both slab kinds; the mutableElementIndex entry of a removed/overwritten child is deleted, guarded only by identity tests; parent-updater callbacks re-set the child only on paths that passed the true edge of a ValueID.equal test and after a fresh lookup; parentUpdater is assigned only by setParentUpdater and cleared only on the not-found edge of its own invocation. The identity predicate ValueID.equal(SlabID) is the conjunction of address equality and index equality on the right halves of the value id; a bulk pop resets the child index. An element overwritten with the very container it already holds is recognised before the overwritten storable is uninlined (otherwise the slab just stored as the new element is un-inlined under the parent). Every slab a mutation creates or modifies is stored before the API call returns also when the container is a detached child whose stale parent callback is still installed (the callback of a detached child stores nothing), and a request that is rejected for its arguments has no effect on the value it was given (a rejected Insert must not have inlined - and thereby deleted - the detached container it was asked to insert).",
		NotDecided:  "that re-validation compares the right element after arbitrary histories; equality of identity after reattachment.",
		Technique:   "value-flow on return operands, control-dependence slices, edge-restricted reachability in callback closures",
	}
	propTable["C06"] = &PropSpec{
		ID:          "C06",
		Rules:       []string{"L1", "L2", "L16", "L19", "L7", "L8", "L14"},
		Explanation: "each prefix / stride size constant equals, by value, the number of bytes its encoder writes outside child elements and extra-data sections (abstract interpretation of every slab and element encoder: fixed-width writes, per-entry loop bytes, spliced helper encoders, two-pass element buffer emitted exactly once); the only conditional group of a data-slab encoder is the sibling link and it is exactly the difference between the non-root and root constants (the documented 16-byte saving); the compact inlined-map form has the same inlined prefix and no fixed per-element bytes, so it can only be shorter; decoders start a decoded slab's size from the same prefix getPrefixSize() returns for that state (root / non-root / inlined); every write of an element list or the inlined flag is accompanied by a size update on all success paths. Every cached size that is established or re-based (slab literals, absolute and re-basing assignments, computed size functions) carries, in its constant part, the encoded prefix of the object kind in the state before / after (root, non-root, inlined for data slabs; one prefix plus whole per-entry constants for every other kind); a prefix obtained from getPrefixSize() is the prefix of the object's final state (no later change of the inlined flag or extra data without a new size); wherever root-ness is transferred (SetExtraData / RemoveExtraData) the cached size of that very object is re-based in the matching direction on every path on which it is a data slab; the element size handed to the single-slab direct build is the sum of ByteSize() over exactly the elements placed in the list.",
		NotDecided:  "that the incremental += / -= bookkeeping sums to the same total on every history (value-level); honesty of client Storable.ByteSize().",
		Technique:   "abstract interpretation of encoder write widths over go/ssa, per-state constant-part evaluation of decoder size expressions, co-update path rule",
	}
	propTable["C07"] = &PropSpec{
		ID:          "C07",
		Rules:       []string{"L3", "L4", "L11", "L15", "L20", "L21", "L22", "L1", "X1"},
		Explanation: "header flags: each setter/getter pair uses the same byte and single-bit mask, disjoint from type and version bits; each slab encoder sets each flag exactly under the state it describes (root <=> extra data, has-pointers <=> HasPointer(), next <=> sibling link, any-size <=> anySize, inlined-slabs <=> collected extra data) and the V1 decoders and raw-bytes queries consult exactly those flags; vocabularies coincide: every CBOR tag emitted is dispatched (in-package or, by table, by the client decoder) and vice versa, tag numbers are distinct, slab kinds emitted equal kinds dispatched by DecodeSlab, encoders emit version 1 and decoders accept exactly versions 0 and 1; encoders use fixed-width heads matching the size constants; decode dispatch covers every element kind. The key under which the encoder shares one extra-data entry between inlined containers depends on the encoded type information and on every field name, so containers of different type never share an entry. Raw byte writes into the CBOR stream are well-formed item sequences for every value (a run-time byte never stands in head position; fixed-width heads announce exactly the bytes written), and no decoder limit is tighter than what the encoders can write (the one-byte extra-data index: indexes 0..255, hence up to 256 entries).",
		NotDecided:  "byte-for-byte round trip of arbitrary nested content, compact-map ordering, rejection of trailing bytes.",
		Technique:   "mask/guard checks on go/ssa, AST vocabulary comparison of encoder and decoder sides, encoder width interpretation",
	}
	propTable["C08"] = &PropSpec{
		ID:          "C08",
		Rules:       []string{"R1", "S3", "S7", "S8", "S9", "L2", "L11", "X7"},
		Explanation: "a slab served from the read cache (or decoded) that is then mutated re-enters the write set because every mutation ends in a store of that object on every success path; commit moves the very same object from the write set into the cache (nil after a deletion) and only on the success edge; apart from that only DecodeSlab results under the same id enter the cache, controlled by the cache flag; lookups consult write set, cache, ledger in that order and a hit returns the found entry; observers cannot reach a writer of the write set. Decoded slabs, element lists and extra data never alias the slab-wide inlined extra data (no slice, map or pointer reachable from it by loads alone is stored into them).",
		NotDecided:  "equality of decoded and original content (C07) and the compact-map reload exception; byte-identity under all schedules.",
		Technique:   "typestate over slab objects + field-write ownership + dominance of lookups",
	}
	propTable["C09"] = &PropSpec{
		ID:          "C09",
		Rules:       []string{"R1", "R2", "R3", "R7", "N2", "N4", "X2", "X1", "N5", "K3", "S3", "S4", "S10"},
		Explanation: "every new or modified slab is stored, every allocated id becomes a slab identity, every detach event (merge, bulk pop of children, inline, root promotion, external collision group collapse/pop) removes the register and uninline stores it, on every success path; every Storable handed back by an exported Array/OrderedMap method went through uninlineStorableIfNeeded (a detached inlined child becomes a stored standalone slab the caller can dispose of); every field of a slab/element type that can hold a slab reference is read by the ChildStorables call graph (so references are enumerable and removable), with sibling links and own ids exempt by table; every slab/element kind is handled by every family type switch. A detached child's parent-updater writes into its former parent only after its identity (value id: address and index) was confirmed for the slot: otherwise a stale handle evicts a live value that is never handed back (leaked slabs). An element overwritten with the very container it already holds is recognised before the overwritten storable is uninlined (otherwise the slab just stored as the new element is un-inlined under the parent). A key is materialised (possibly as a separate slab) only where no stored key was found equal to it, so an update never orphans the stored key's slab. A pending removal leaves the write set only after the register deletion was issued and succeeded, and no commit iteration skips an entry (a consumed tombstone without a ledger delete leaves an unreachable register behind).",
		NotDecided:  "'referenced exactly once' and owner equality (facts about runtime id values).",
		Technique:   "value-flow on return operands, field-read coverage over the ChildStorables call graph, type-switch exhaustiveness over closed families",
	}
	propTable["C12"] = &PropSpec{
		ID:          "C12",
		Rules:       []string{"K1", "K2", "K3", "R6", "X1", "R1", "R3", "L9", "L21"},
		Explanation: "the collision-limit rejection is control dependent on level == 0, on a comparison with maxCollisionLimitPerDigest and on errors.As(KeyNotFoundError) of Get with the same key parameter (so updates of existing keys are never refused), and no mutation, store or allocation precedes it on any path; every element kind (single element, inline group, external group) and both element-list kinds are handled by every family type switch or by an erroring default. Collision groups and element lists report their true entry counts (the limit counts entries through element.Count). Lists of colliding elements are written with fixed-width length heads: the length must be bounded wherever the list can be encoded (finding F9: inside an external collision group nothing bounds it).",
		NotDecided:  "dictionary semantics under arbitrary digest assignments; correctness of spill/collapse transitions (value-dependent).",
		Technique:   "control-dependence slices and backward reachability on go/ssa; type-switch exhaustiveness",
	}
	propTable["C13"] = &PropSpec{
		ID:          "C13",
		Rules:       []string{"X4", "I2", "I3", "I4", "X1", "X8", "R5", "R6", "L17"},
		Explanation: "every exit of an iterator Next method that hands out an element is preceded on all paths by a cursor advance; range constructors reject start > end and bounds beyond the count before building an iterator and leave no trace; Next/NextKey/NextValue of each iterator type write the same cursor fields (no flavour can skip or repeat relative to its siblings); every slab/element kind is handled by the iterator type switches (no silent skip); mutable iteration hands out children with the parent callback installed, read-only iterators arm the mutation error on every element. A comma-ok downcast of a slab / element / element-list value to one family member never returns success early on the not-ok edge (no member of the family is silently skipped while looking for the next element).",
		NotDecided:  "exactly-once, canonical order and the loaded-subset subsequence property (value-level).",
		Technique:   "may-effect comparison of sibling methods, type-switch exhaustiveness, must-pass-through path rule",
	}
	propTable["C17"] = &PropSpec{
		ID:          "C17",
		Rules:       []string{"X5", "X6", "R1", "R2", "L14", "L17", "X9", "R3"},
		Explanation: "for every type with a can-copy/copy pair the predicate is constant false exactly when the operation fails on every path, and non-constant predicates refuse on exactly the receiver state the operation fails on (the rest is delegated to the elements' own pair); every slice/map/pointer field of a copy receives a fresh or cloned value, never one loaded from the source. The batch builders build the next tree level only from at least two slabs (tested on the slice after the tail merge) and merge / rebalance the underfull last slab of a level on the correct decision edges. Every field of every struct a copy function builds is assigned (nothing is silently zero in the copy), and the batch builders remove - or never store - a slab they merge away.",
		NotDecided:  "equality of content, validity 'as if built by individual operations' (tail-rebalance arithmetic), byte-array conversions.",
		Technique:   "return-constant and control-dependence comparison of sibling methods; alias check on stores into the fresh result",
	}
	propTable["C18"] = &PropSpec{
		ID:          "C18",
		Rules:       []string{"R6", "B1", "E1", "E2", "K1"},
		Explanation: "in every function that can return a request rejection (index/range out of bounds, absent key, collision limit, element-count limit, undefined identifier; propagated interprocedurally but not across the storage component boundary) no mutation, store, removal, id allocation, write-set change or Value.Storable call precedes the rejection on any path; each rejection constructor named by the property ends in the contract's category constructor (index/range/absent key/element count/element type -> UserError; collision limit, undefined id, slab not found -> FatalError), every other constructor is categorised, the category types keep Unwrap and the wrap helper recognises all three categories; no error returned by a caller-supplied component (Ledger, BaseStorage, SlabStorage, DigesterBuilder, ValueComparator, HashInputProvider) leaves a function raw; the collision-limit rejection precedes every effect. A found / ok flag returned next to the error of a caller-supplied component is consulted only where the error is known to be nil, and such an error is never handed to a library error constructor other than the external-error wrappers.",
		NotDecided:  "message text ('error names the cause'); effects inside client callbacks (Value.Storable is treated as an effect).",
		Technique:   "constructor delegation resolution, taint from interface/func-value call results to return operands, backward reachability",
	}
	propTable["C19"] = &PropSpec{
		ID:          "C19",
		Rules:       []string{"P2", "P3", "P5", "P6", "P7", "P8", "X1"},
		Explanation: "over the whole decode scope (everything reachable from DecodeSlab, the raw-header queries, the inlined-storable decoders and the size/child-reference accessors): no explicit panic except the unreachable tail of an exhaustive family switch; no unproven single-result type assertion; every slice expression, index and fixed-width big-endian read is covered by a dominating length fact (constant and exact guards tracked through reslicing and phis, call-site facts for private helpers, success post-conditions of helpers, range loops, symbolic guards, count==len guards) or by the stride-loop / chunked-read idioms whose arithmetic is checked (offset induction, per-entry stride, guard len==stride*n); every make is bounded by a length, a 16-bit field or a CBOR-delivered count; every loop is a range/counter/worklist loop; decoded sizes are added with overflow checks; decoded literals set the fields their accessors dereference. An allocation in an accessor of a decoded slab is sized by a length or a narrow field, never by a wide count field whose value comes from the register.",
		NotDecided:  "panics inside the CBOR library or client StorableDecoder/TypeInfoDecoder callbacks (A-CBOR, A-CLIENT), allocation proportionality of nested content, runtime nil dereferences other than the accessor fields checked by P8.",
		Technique:   "forward length-lower-bound dataflow with dominating-guard facts over go/ssa, loop-idiom recognisers, call-graph scoped lint rules",
	}
	propTable["C20"] = &PropSpec{
		ID:          "C20",
		Rules:       []string{"X1", "X2", "X3", "S9"},
		Explanation: "reference enumeration is complete over slab/element kinds (type switches) and over reference-bearing fields (ChildStorables coverage); the three walkers recognise SlabIDStorable and descend through nested storables; getAllChildReferences splits broken from resolved references by the found flag; each failure mode of the property (second parent, owner mismatch, missing slab, root count, unreachable slab) controls an error return of CheckStorageHealth; the checker and the reference query cannot reach a writer of the write set or of registers. getAllChildReferences queues the children of every resolved slab on every path; CheckStorageHealth resolves every recorded reference against the slabs of the storage, not only those on a path from a childless slab to a root. The slab iterator the check is built on enumerates the write set and the read cache themselves, with no owner filter (temporary-address slabs live only in the write set), and no success path of the check bypasses the pass that resolves every recorded reference.",
		NotDecided:  "that the predicates are evaluated on the right ids for every storage (value-level).",
		Technique:   "structural shape rules over go/ssa + call-graph reachability",
	}
	propTable["C14"] = &PropSpec{
		ID:          "C14",
		Rules:       []string{"S3", "S4", "S5", "S2", "S10"},
		Explanation: "Structural necessary conditions of 'a failed commit loses nothing': in every function that writes registers, a write-set entry is deleted (and the cache updated) only on the err==nil edge of the BaseStorage write of the same id on all paths; each completed apply-loop iteration issues a write; every error of a register write, of EncodeSlab and of a worker result surfaces as a non-nil returned error with no storage-map or register write after it. Both commits collect only owned identifiers (the temporary-address filter), so the order-relaxed commit and its retries converge to the registers of the deterministic one.",
		NotDecided:  "byte-identity of the ledger after retries (depends on encode determinism, C04/C07) and behaviour of the client BaseStorage.",
		Technique:   "CFG path rules on go/ssa: must-precede / edge-dominance of delete(deltas) by the nil-error edge of the register write, loop-iteration coverage, error-edge reachability",
	}
}
