package main

func registerAll() {
	reg("S1", "who-may-write-registers: BaseStorage.Store/Remove reachable only through commit entry points; Ledger.SetValue only in BaseStorage adapters", ruleS1)
	reg("S2", "temp-address filter: every collector of commit keys guards each key use by address != AddressUndefined and records every owned key", ruleS2)
	reg("S3", "delete-after-success: a write-set entry is deleted / moved to the cache only after the register write of the same id returned nil", ruleS3)
	reg("S4", "no silent skip: every completed iteration of an apply loop issues a register write", ruleS4)
	reg("S5", "error surfacing: errors of register writes, EncodeSlab and worker results return a non-nil error without further writes", ruleS5)

	reg("S6", "sorted apply: the deterministic commit writes registers by walking, first to last, a slice returned by a collector that sorts it on every path with a comparator decided (order abstraction over the 9 address x index orderings) to be ascending (owner, index)", ruleS6)
	reg("S7", "lookup order: write set, then read cache, then ledger; hits return the found entry; cache fill guarded by the cache flag and holds DecodeSlab of the same id", ruleS7)
	reg("S8", "field-write ownership table of PersistentSlabStorage (who may update/delete/replace deltas, cache, counters, codecs)", ruleS8)
	reg("S9", "observers (everything exported on PersistentSlabStorage except Store/Remove/DropDeltas/commit, and CheckStorageHealth) cannot reach a writer of the write set or of registers", ruleS9)

	propTable["C14"] = &PropSpec{
		ID:    "C14",
		Rules: []string{"S3", "S4", "S5"},
		Explanation: "Structural necessary conditions of 'a failed commit loses nothing': in every function that writes registers, a write-set entry is deleted (and the cache updated) only on the err==nil edge of the BaseStorage write of the same id on all paths; each completed apply-loop iteration issues a write; every error of a register write, of EncodeSlab and of a worker result surfaces as a non-nil returned error with no storage-map or register write after it.",
		NotDecided: "byte-identity of the ledger after retries (depends on encode determinism, C04/C07) and behaviour of the client BaseStorage.",
		Technique:  "CFG path rules on go/ssa: must-precede / edge-dominance of delete(deltas) by the nil-error edge of the register write, loop-iteration coverage, error-edge reachability",
	}
}

